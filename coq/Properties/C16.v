(* C16 - 3DS arc extraction returns exactly the packed files.

   Model: Model/Arc.v (mila::arc::from_bytes written with the bin-archive stream model; repaired
   code, F9 bc4a741: `offset + header_padding` is a checked addition).  Names are Shift-JIS
   ENCODED byte lists (A-codec).  Tied to src/arc.rs by `./check C16` (images from a Python arc
   writer with layout knobs and error variants, debug and release builds, results compared as
   sorted maps with the file set the image was built from).

   The layout relation [arc_layout a files] speaks about the archive a = BinArchive::from_bytes of the image: Count and Info
   are looked up with find_label_address - since the repair 10408e9 the LOWEST address whose bucket contains the label
   (C16_lookup_is_lowest; with the label on exactly one address, that address: C16_layout_unique), independent of the
   hash order of the map; the word at the Count address is |files|; at the Info address follows one 16-byte record (string
   cell, index, size, offset) per file; body i = data[offset + pad, + size), names distinct.  Records may come in any
   order and bodies may be placed anywhere (aligned or not, overlapping or not, empty; an EMPTY range is the empty body
   wherever it points, also beyond the data region - the code reads no byte).
   "Padded header present" is the DETECTION RULE of arc.rs:23, not "0x60 zero bytes": pad = 0x60 iff the first u32 of the
   data region is 0 ([arc_pad]).  An un-padded image whose first data word happens to be 0 is therefore outside the
   relation (the code would add 0x60 to its offsets); the property text ("when one is present") leaves this open, the
   relation adopts the code's rule.
   KNOWN FINDING F27 (known_findings.json, status known; NOT repaired - a repair is a format decision).  The property text
   quantifies over images "with and without the padded header, any placement of file bodies".  An UN-padded image whose
   first data word is 0 (a first body starting with 00 00 00 00, an empty / short zero body or an alignment gap at data
   offset 0) IS such an image ([arc_spec], the reading of the text with an explicit padding), but arc.rs:23 takes "first
   u32 = 0" for "the header is present" and adds 0x60 to every offset: Err(OutOfBounds) for small images, and - when the
   tables behind the bodies give 0x60 bytes of slack - Ok with bytes of the Count / Info tables under the right names
   (silent wrong data).  The model agrees with the code.  The FULL statement is the Definition C16_extract_full; it is
   REFUTED (C16_extract_full_refuted, witnesses C16_F27_witness_rejected and C16_F27_witness_wrong_data); what is proved
   is C16_extract_outside_known: every image of [arc_spec] that is not [KnownF27] (un-padded layout /\ first data word = 0)
   is extracted exactly.  [arc_layout] is [arc_layout_with] at the padding the heuristic picks (C16_layout_explicit).
   Byte level: C16_file_reads_content - on ANY byte string that conforms to the bin-archive format relation of C01
   (Proofs/BinFormatSpec.v: tables in any order, strings anywhere in the text section) the byte-level reader is the
   archive-level reader on the file's content; it rests on C01's parser correctness (Proofs/TextBinBridge.v:
   parsed_obs_equal) and has no premise about BinFormat.from_bytes.  Every archive-level theorem below therefore speaks
   about files; C16_extract_from_file, C16_file_no_count, C16_file_no_info are spelled out. *)
From Coq Require Import List NArith ZArith Bool Permutation.
From Mila Require Import Lib.Bytes Lib.Machine Model.BinArchive Model.BinStreams Model.BinFormat Model.Arc
  Proofs.BinFormatSpec Proofs.FindLabel Proofs.ObsEqual Proofs.TextBinBridge Proofs.ArcProofs Proofs.ArcTotal Proofs.ArcBytes.
From Mila Require Proofs.C05Rejects.
Import ListNotations.
Local Open Scope N_scope.

(* ---- extraction returns exactly the packed files (in record order, hence as a finite map) ---- *)
Theorem C16_extract : forall m a files, arc_layout a files -> arc_from_archive m a = Ok files.
Proof. exact arc_extract. Qed.
(* ---- the property's sentence with an explicit padding, the known finding F27 carved out ---- *)
(* arc_layout = the layout at the padding the code's heuristic picks from the first data word *)
Theorem C16_layout_explicit : forall a files,
  arc_layout a files <-> exists w0, read_u32 a 0 = Ok w0 /\ arc_layout_with (arc_pad w0) a files.
Proof. exact arc_layout_explicit. Qed.
(* FULL statement (arc_spec a files := un-padded layout, offsets from the data start, \/ 0x60 zero header present and offsets
   from its end): extraction returns exactly the packed files.  NOT a theorem: *)
Definition C16_extract_full : Prop := forall m a files, arc_spec a files -> arc_from_archive m a = Ok files.
Theorem C16_extract_full_refuted : ~ C16_extract_full.
Proof. exact arc_extract_full_refuted. Qed.
(* proved: every described image outside the known finding (KnownF27 a files := arc_layout_with 0 a files /\ read_u32 a 0 = Ok 0) *)
Theorem C16_extract_outside_known : forall m a files,
  arc_spec a files -> ~ KnownF27 a files -> arc_from_archive m a = Ok files.
Proof. exact arc_extract_outside_known. Qed.
(* the witnesses: an un-padded image of one file 00 00 00 00 AA BB at data offset 0 is rejected; an un-padded image of seven
   8-byte files (first body zero-leading, tables behind the bodies) is ACCEPTED with the wrong bytes for all seven names *)
Example C16_F27_witness_rejected :
  KnownF27 f27_archive [([122], [0;0;0;0;0xAA;0xBB])] /\ forall m, arc_from_archive m f27_archive = Err EOob.
Proof. split; [exact f27_known | exact f27_rejected]. Qed.
Example C16_F27_witness_wrong_data :
  arc_layout_with 0 f27_archive7 f27_files7 /\ read_u32 f27_archive7 0 = Ok 0 /\
  (forall m, arc_from_archive m f27_archive7 = Ok f27_wrong7) /\ f27_wrong7 <> f27_files7 /\ map fst f27_wrong7 = map fst f27_files7.
Proof. split; [exact f27_7_is_unpadded_layout|]. split; [reflexivity|]. split; [exact f27_7_wrong_data|]. split; [exact f27_7_differs | reflexivity]. Qed.

Theorem C16_extract_as_map : forall m a files, arc_layout a files ->
  exists r, arc_from_archive m a = Ok r /\ NoDup (map fst r) /\ length r = length files /\
    (forall name body, In (name, body) files -> fm_get name r = Some body) /\
    (forall name, ~ In name (map fst files) -> fm_get name r = None).
Proof. exact arc_extract_map. Qed.
Theorem C16_extract_from_bytes : forall m f a files,
  BinFormat.from_bytes LE f = Ok a -> arc_layout a files -> arc_from_bytes m f = Ok files.
Proof. exact arc_from_bytes_extract. Qed.
(* on FILES: every byte string conforming to the bin-archive format with a content laid out as an arc *)
Theorem C16_extract_from_file : forall m f c files,
  conforms LE f c -> arc_layout (content_archive LE c) files -> arc_from_bytes m f = Ok files.
Proof. exact arc_extract_from_file. Qed.
Theorem C16_file_no_count : forall m f c, conforms LE f c ->
  label_addrs (content_archive LE c) COUNT = [] -> arc_from_bytes m f = Err ENoCount.
Proof. exact arc_file_no_count. Qed.
Theorem C16_file_no_info : forall m f c, conforms LE f c ->
  label_addrs (content_archive LE c) COUNT <> [] -> label_addrs (content_archive LE c) INFO = [] -> arc_from_bytes m f = Err ENoInfo.
Proof. exact arc_file_no_info. Qed.
(* the general transfer to FILES: the byte-level reader on a conforming file is the archive-level reader on the file's
   content (no uniqueness of the labels needed since the lookup is a function of the label map) - C16_record_without_name,
   C16_range_outside, C16_offset_overflow, C16_count_too_large below therefore speak about files as well *)
Theorem C16_file_reads_content : forall m f c, conforms LE f c ->
  arc_from_bytes m f = arc_from_archive m (content_archive LE c).
Proof. exact arc_file_reads_content. Qed.
(* Count / Info: the lowest address whose bucket contains the label; the unique-address reading is an instance *)
Theorem C16_lookup_is_lowest : forall a l c, find_label_address a l = Some c <->
  In c (label_addrs a l) /\ forall y, In y (label_addrs a l) -> c <= y.
Proof. exact find_label_lowest. Qed.
Theorem C16_layout_unique : forall a files c i w0 recs,
  label_addrs a COUNT = [c] -> label_addrs a INFO = [i] -> read_u32 a 0 = Ok w0 -> read_u32 a c = Ok (lenL files) ->
  table_from a i (arc_pad w0) 0 recs -> Forall2 (holds_file a) recs files -> NoDup (map fst files) -> arc_layout a files.
Proof. exact arc_layout_unique. Qed.
(* the relation (and so the result) does not depend on the hash order of the label map *)
Theorem C16_layout_any_hash_order : forall a a' files,
  a_data a' = a_data a -> a_text a' = a_text a -> a_endian a' = a_endian a -> Permutation (a_labels a) (a_labels a') ->
  arc_layout a files -> arc_layout a' files.
Proof. exact arc_layout_any_hash_order. Qed.

(* ---- the four errors ---- *)
Theorem C16_no_count : forall m a, label_addrs a COUNT = [] -> arc_from_archive m a = Err ENoCount.
Proof. exact arc_no_count. Qed.
Theorem C16_no_info : forall m a, label_addrs a COUNT <> [] -> label_addrs a INFO = [] -> arc_from_archive m a = Err ENoInfo.
Proof. exact arc_no_info. Qed.
(* the count says there are more than |pre| records, the first |pre| are readable, the next name cell holds no string *)
Theorem C16_record_without_name : forall m a c i w0 n pre,
  find_label_address a COUNT = Some c -> find_label_address a INFO = Some i ->
  read_u32 a 0 = Ok w0 -> read_u32 a c = Ok n ->
  table_from a i (arc_pad w0) 0 pre -> lenL pre < n ->
  read_string a (i + 16 * N.of_nat (length pre)) = Ok None ->
  arc_from_archive m a = Err EMissingName.
Proof. exact arc_missing_name. Qed.
(* all records readable, the bodies before record |pre| inside the data (or empty), the next one has a non-empty range
   that ends beyond the data region *)
Theorem C16_range_outside : forall m a c i w0 pre en post,
  find_label_address a COUNT = Some c -> find_label_address a INFO = Some i ->
  read_u32 a 0 = Ok w0 -> read_u32 a c = Ok (lenL (pre ++ en :: post)) ->
  table_from a i (arc_pad w0) 0 (pre ++ en :: post) ->
  (forall e, In e pre -> ae_size e = 0 \/ ae_address e + ae_size e <= size a) ->
  1 <= ae_size en -> size a < ae_address en + ae_size en ->
  arc_from_archive m a = Err EOob.
Proof. exact arc_range_outside. Qed.
(* the general sentence "a record whose range leaves the data region is reported as an error": the table is fully readable,
   the count is the number of its records and SOME record has a non-empty range ending beyond the data region *)
Theorem C16_any_range_outside : forall m a c i w0 recs en,
  find_label_address a COUNT = Some c -> find_label_address a INFO = Some i ->
  read_u32 a 0 = Ok w0 -> read_u32 a c = Ok (lenL recs) ->
  table_from a i (arc_pad w0) 0 recs ->
  In en recs -> 1 <= ae_size en -> size a < ae_address en + ae_size en ->
  arc_from_archive m a = Err EOob.
Proof. exact arc_any_range_outside. Qed.
(* the table itself runs off the data region: Count declares n >= 1 records but n 16-byte records do not fit between the
   Info address and the end of the data - some error (out of bounds at the record that leaves the data, or an earlier one) *)
Theorem C16_count_too_large : forall m a c i n,
  find_label_address a COUNT = Some c -> find_label_address a INFO = Some i ->
  read_u32 a c = Ok n -> 1 <= n -> size a < i + 16 * n -> exists er, arc_from_archive m a = Err er.
Proof. exact C05Rejects.arc_count_rejected. Qed.
(* finding F9: an offset that no longer fits a u32 once the padding is added is out of bounds, in both modes *)
Theorem C16_offset_overflow : forall m a c i w0 n pre name idx sz off,
  find_label_address a COUNT = Some c -> find_label_address a INFO = Some i ->
  read_u32 a 0 = Ok w0 -> read_u32 a c = Ok n ->
  table_from a i (arc_pad w0) 0 pre -> lenL pre < n ->
  let r := i + 16 * N.of_nat (length pre) in
  read_string a r = Ok (Some name) -> read_u32 a (r + 4) = Ok idx -> read_u32 a (r + 8) = Ok sz -> read_u32 a (r + 12) = Ok off ->
  2 ^ 32 <= off + arc_pad w0 ->
  arc_from_archive m a = Err EOob.
Proof. exact arc_offset_overflow. Qed.

(* ---- totality on every archive value, both arithmetic modes (the arc part of C05) ---- *)
Theorem C16_never_panics : forall m a k, arc_from_archive m a <> Panic k.
Proof. exact arc_from_archive_no_panic. Qed.
Theorem C16_fuel_never_exhausted : forall m a, arc_from_archive m a <> Err EOutOfFuel.
Proof. exact arc_from_archive_fuel_never_exhausted. Qed.

(* ---- the reader sees observations only ---- *)
Theorem C16_reader_sees_observations_only : forall m a a',
  obs_equal a a' -> a_endian a' = a_endian a -> arc_from_archive m a' = arc_from_archive m a.
Proof. exact arc_from_archive_obs_equal. Qed.

(* ---- non-vacuity: two images of the same two files ---- *)
(* un-padded (first word non-zero), records in the order (b, a) while the bodies lie in the order (a, b),
   body b unaligned and body a empty, Info before Count *)
Definition C16_sample_unpadded : archive :=
  {| a_data := [7;0;0;0; 9;8;7;0] ++ [0;0;0;0; 1;0;0;0; 3;0;0;0; 4;0;0;0] ++ [0;0;0;0; 0;0;0;0; 0;0;0;0; 4;0;0;0] ++ [2;0;0;0];
     a_text := [(24, [97]); (8, [98])]; a_ptrs := [];
     a_labels := [(40, [COUNT; [120]]); (8, [INFO])]; a_cstrs := []; a_endian := LE |}.
Example C16_sample_unpadded_layout : arc_layout C16_sample_unpadded [([98], [9;8;7]); ([97], [])].
Proof.
  exists 40, 8, 7, [mkEntry [98] 1 3 4; mkEntry [97] 0 0 4]. repeat split; try reflexivity.
  - intros j en Hj. destruct j as [|[|j]]; cbn in Hj.
    + inversion Hj; subst. exists 4. vm_compute. repeat split; reflexivity.
    + inversion Hj; subst. exists 4. vm_compute. repeat split; reflexivity.
    + destruct j; discriminate.
  - repeat constructor.
  - repeat constructor; cbn; intuition discriminate.
Qed.
(* padded: 0x60 zero bytes, offsets relative to their end *)
Definition C16_sample_padded : archive :=
  {| a_data := zeros 0x60 ++ [9;8;7;0] ++ [1;0;0;0] ++ [0;0;0;0; 5;0;0;0; 3;0;0;0; 0;0;0;0];
     a_text := [(0x68, [98])]; a_ptrs := [];
     a_labels := [(0x68, [INFO]); (0x64, [COUNT])]; a_cstrs := []; a_endian := LE |}.
Example C16_sample_padded_layout : arc_layout C16_sample_padded [([98], [9;8;7])].
Proof.
  exists 0x64, 0x68, 0, [mkEntry [98] 5 3 0x60]. repeat split; try reflexivity.
  - intros j en Hj. destruct j as [|j]; cbn in Hj; [|destruct j; discriminate]. inversion Hj; subst. exists 0. vm_compute. repeat split; reflexivity.
  - repeat constructor.
  - repeat constructor; cbn; intuition discriminate.
Qed.
Example C16_sample_extract :
  arc_from_archive Checked C16_sample_unpadded = Ok [([98], [9;8;7]); ([97], [])] /\
  arc_from_archive Wrapping C16_sample_padded = Ok [([98], [9;8;7])].
Proof. split; vm_compute; reflexivity. Qed.
(* an EMPTY file packed as the last body with nothing after it: size 0 and address = size of the data region (24); the range
   [24, 24) is inside the data, extraction returns the empty entry (a reader that validates the START address as a byte
   address would wrongly reject it) *)
Definition C16_sample_empty_last : archive :=
  {| a_data := [7;0;0;0] ++ [1;0;0;0] ++ [0;0;0;0; 0;0;0;0; 0;0;0;0; 24;0;0;0];
     a_text := [(8, [101])]; a_ptrs := []; a_labels := [(4, [COUNT]); (8, [INFO])]; a_cstrs := []; a_endian := LE |}.
Example C16_sample_empty_last_layout : size C16_sample_empty_last = 24 /\ arc_layout C16_sample_empty_last [([101], [])].
Proof.
  split; [reflexivity|]. exists 4, 8, 7, [mkEntry [101] 0 0 24]. repeat split; try reflexivity.
  - intros j en Hj. destruct j as [|j]; cbn in Hj; [|destruct j; discriminate]. inversion Hj; subst. exists 24. vm_compute. repeat split; reflexivity.
  - repeat constructor.
  - repeat constructor; cbn; intuition discriminate.
Qed.
Example C16_sample_empty_last_extract : forall m, arc_from_archive m C16_sample_empty_last = Ok [([101], [])].
Proof. intros m. exact (arc_extract m _ _ (proj2 C16_sample_empty_last_layout)). Qed.
(* the label Count on TWO addresses (24 comes first in the map, 4 is the lowest): the lookup answers 4 (the code before the
   repair 10408e9 answered in hash order - here 24, whose word 9 would make the table run off the data); the record has an
   empty range *)
Definition C16_sample_two_counts : archive :=
  {| a_data := [7;0;0;0] ++ [1;0;0;0] ++ [0;0;0;0; 0;0;0;0; 0;0;0;0; 24;0;0;0] ++ [9;0;0;0];
     a_text := [(8, [101])]; a_ptrs := []; a_labels := [(24, [COUNT]); (4, [COUNT]); (8, [INFO])]; a_cstrs := []; a_endian := LE |}.
Example C16_sample_two_counts_lowest :
  find_label_address C16_sample_two_counts COUNT = Some 4 /\ find_label_address_first C16_sample_two_counts COUNT = Some 24 /\
  arc_layout C16_sample_two_counts [([101], [])] /\ forall m, arc_from_archive m C16_sample_two_counts = Ok [([101], [])].
Proof.
  assert (L : arc_layout C16_sample_two_counts [([101], [])]).
  { exists 4, 8, 7, [mkEntry [101] 0 0 24]. repeat split; try reflexivity.
    - intros j en Hj. destruct j as [|j]; cbn in Hj; [|destruct j; discriminate]. inversion Hj; subst. exists 24. vm_compute. repeat split; reflexivity.
    - repeat constructor.
    - repeat constructor; cbn; intuition discriminate. }
  split; [reflexivity|]. split; [reflexivity|]. split; [exact L|]. intros m. exact (arc_extract m _ _ L).
Qed.
(* a record of size 0 whose offset points far beyond the 24-byte data region: inside the relation (the empty range holds the
   empty body), extracted as an empty entry - no byte is read *)
Definition C16_sample_empty_beyond : archive :=
  {| a_data := [7;0;0;0] ++ [1;0;0;0] ++ [0;0;0;0; 0;0;0;0; 0;0;0;0; 232;3;0;0];
     a_text := [(8, [101])]; a_ptrs := []; a_labels := [(4, [COUNT]); (8, [INFO])]; a_cstrs := []; a_endian := LE |}.
Example C16_sample_empty_beyond_extract :
  arc_layout C16_sample_empty_beyond [([101], [])] /\ forall m, arc_from_archive m C16_sample_empty_beyond = Ok [([101], [])].
Proof.
  assert (L : arc_layout C16_sample_empty_beyond [([101], [])]).
  { exists 4, 8, 7, [mkEntry [101] 0 0 1000]. repeat split; try reflexivity.
    - intros j en Hj. destruct j as [|j]; cbn in Hj; [|destruct j; discriminate]. inversion Hj; subst. exists 1000. vm_compute. repeat split; reflexivity.
    - constructor; [|constructor]. split; [reflexivity|]. split; [reflexivity|]. right. reflexivity.
    - repeat constructor; cbn; intuition discriminate. }
  split; [exact L|]. intros m. exact (arc_extract m _ _ L).
Qed.
(* the hypotheses of the error theorems are satisfiable - each outcome is obtained THROUGH the theorem *)
(* Count = 1, the name cell of record 0 holds no string *)
Definition C16_sample_no_name : archive :=
  {| a_data := [7;0;0;0] ++ [1;0;0;0] ++ [0;0;0;0; 0;0;0;0; 0;0;0;0; 24;0;0;0];
     a_text := []; a_ptrs := []; a_labels := [(4, [COUNT]); (8, [INFO])]; a_cstrs := []; a_endian := LE |}.
Example C16_example_record_without_name : forall m, arc_from_archive m C16_sample_no_name = Err EMissingName.
Proof.
  intros m. apply (arc_missing_name m C16_sample_no_name 4 8 7 1 []); try reflexivity.
  intros j en Hj. destruct j; discriminate.
Qed.
(* one record with the non-empty range [26, 29) in a 24-byte data region *)
Definition C16_sample_range : archive :=
  {| a_data := [7;0;0;0] ++ [1;0;0;0] ++ [0;0;0;0; 0;0;0;0; 3;0;0;0; 26;0;0;0];
     a_text := [(8, [101])]; a_ptrs := []; a_labels := [(4, [COUNT]); (8, [INFO])]; a_cstrs := []; a_endian := LE |}.
Example C16_example_range_outside : forall m, arc_from_archive m C16_sample_range = Err EOob.
Proof.
  intros m. apply (arc_any_range_outside m C16_sample_range 4 8 7 [mkEntry [101] 0 3 26] (mkEntry [101] 0 3 26)); try reflexivity.
  - intros j en Hj. destruct j as [|j]; cbn in Hj; [|destruct j; discriminate]. inversion Hj; subst. exists 26. vm_compute. repeat split; reflexivity.
  - left. reflexivity.
  - vm_compute. discriminate.
Qed.
(* Count = 2 but a single 16-byte record fits after Info *)
Definition C16_sample_count : archive :=
  {| a_data := [7;0;0;0] ++ [2;0;0;0] ++ [0;0;0;0; 0;0;0;0; 0;0;0;0; 24;0;0;0];
     a_text := [(8, [101])]; a_ptrs := []; a_labels := [(4, [COUNT]); (8, [INFO])]; a_cstrs := []; a_endian := LE |}.
Example C16_example_count_too_large : forall m, exists er, arc_from_archive m C16_sample_count = Err er.
Proof. intros m. apply (C05Rejects.arc_count_rejected m C16_sample_count 4 8 2); try reflexivity; vm_compute; discriminate. Qed.
(* the F9 image through C16_offset_overflow: padded header, offset 0xFFFFFFF0 + 0x60 does not fit a u32 *)
Example C16_example_offset_overflow : forall m, arc_from_archive m f9_archive = Err EOob.
Proof.
  intros m. apply (arc_offset_overflow m f9_archive 0x60 0x64 0 1 [] [102] 0 1 0xFFFFFFF0); try reflexivity.
  - intros j en Hj. destruct j; discriminate.
  - vm_compute. discriminate.
Qed.
(* a FILE (93 bytes, un-padded, one packed file "b" = 9 8 7): it conforms to the format with an arc-shaped content, and
   the byte-level reader extracts exactly that file *)
Definition C16_sample_file : bytes :=
  [93;0;0;0; 28;0;0;0; 1;0;0;0; 2;0;0;0] ++ zeros 16
  ++ [7;0;0;0; 9;8;7;0; 1;0;0;0; 59;0;0;0; 0;0;0;0; 3;0;0;0; 4;0;0;0]
  ++ [12;0;0;0] ++ [8;0;0;0; 0;0;0;0; 12;0;0;0; 6;0;0;0]
  ++ [67;111;117;110;116;0; 73;110;102;111;0; 98;0].
Definition C16_sample_content : content :=
  {| c_data := [7;0;0;0; 9;8;7;0; 1;0;0;0; 59;0;0;0; 0;0;0;0; 3;0;0;0; 4;0;0;0]; c_ptrs := []; c_text := [(12, [98])];
     c_labels := [(8, [COUNT]); (12, [INFO])] |}.
Example C16_sample_file_conforms : conforms LE C16_sample_file C16_sample_content.
Proof.
  exists (zeros 16), [12], [(8, 0); (12, 6)], [67;111;117;110;116;0; 73;110;102;111;0; 98;0], [(8, COUNT); (12, INFO)].
  cbn zeta. split; [vm_compute; reflexivity|]. split; [reflexivity|]. split; [vm_compute; reflexivity|].
  split; [repeat constructor|]. split; [repeat constructor; vm_compute; reflexivity|].
  split. { cbn. repeat constructor; cbn; intuition discriminate. }
  split. { cbn. apply Permutation_refl. }
  split. { intros cell dest []. }
  split. { intros cell s [H|[]]. inversion H; subst. exists 59. vm_compute. repeat split. }
  split. { repeat constructor. }
  split. { repeat constructor; vm_compute; discriminate. }
  split. { cbn. repeat constructor; cbn; intuition discriminate. }
  intros addr. unfold names_at. cbn [filter map fst snd C16_sample_content c_labels am_get].
  destruct (N.eqb_spec 8 addr) as [E8|E8]; [subst addr; cbn; split; [reflexivity | discriminate]|].
  destruct (N.eqb_spec 12 addr) as [E0|E0]; [subst addr; cbn; split; [reflexivity | discriminate]|].
  destruct (N.eqb_spec addr 8); [congruence|]. destruct (N.eqb_spec addr 12); [congruence|]. cbn. split; [reflexivity | discriminate].
Qed.
Example C16_sample_file_layout : arc_layout (content_archive LE C16_sample_content) [([98], [9;8;7])].
Proof.
  exists 8, 12, 7, [mkEntry [98] 0 3 4]. repeat split; try reflexivity.
  - intros j en Hj. destruct j as [|j]; cbn in Hj; [|destruct j; discriminate]. inversion Hj; subst. exists 4. vm_compute. repeat split; reflexivity.
  - repeat constructor.
  - repeat constructor; cbn; intuition discriminate.
Qed.
Example C16_sample_file_extract : forall m, arc_from_bytes m C16_sample_file = Ok [([98], [9;8;7])].
Proof. intros m. exact (arc_extract_from_file m _ _ _ C16_sample_file_conforms C16_sample_file_layout). Qed.
(* finding F9 on the model of the code BEFORE the repair, and the repaired outcome *)
Example C16_F9_witness :
  fst (read_entry_unrepaired Checked f9_archive 0x64 HEADER_PAD) = Panic POverflow /\
  (exists en, fst (read_entry_unrepaired Wrapping f9_archive 0x64 HEADER_PAD) = Ok en /\ ae_address en = 0x50) /\
  (forall m, arc_from_archive m f9_archive = Err EOob).
Proof.
  split; [exact f9_unrepaired_checked_panics|]. split; [|exact f9_repaired_rejects].
  destruct f9_unrepaired_wrapping_reads_elsewhere as (en & H1 & H2 & _). eauto.
Qed.
