(* C16 - 3DS arc extraction (placeholder while the proofs are being written). *)
From Coq Require Import List NArith ZArith Bool.
From Mila Require Import Lib.Bytes Lib.Machine Model.BinArchive Model.Arc.
Import ListNotations.
Local Open Scope N_scope.

Theorem C16_empty_has_no_count : forall m e, arc_from_archive m (ba_new e) = Err ENoCount.
Proof. intros m e. reflexivity. Qed.
