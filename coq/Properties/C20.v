(* C20 - texture containers yield the packed textures and fail cleanly when truncated.

   Models (machine level: outcome monad Ok/Err/Panic, both arithmetic modes, Cursor reads, u32 sums of the
   build profile): Model/Ctpk.v (ctpk::read), Model/Bch.v (bch::read), Model/Cgfx.v (cgfx::read),
   Model/Tpl.v (Tpl::extract_textures, the binread derive modelled by hand); shared: Model/TexCommon.v.
   Format relations written independently of the parsers, tables / names / payloads anywhere in the
   file: Model/TexFormat.v (conforms_ctpk, conforms_bch, conforms_cgfx, conforms_tpl + boolean checkers).
   Per-texture decoding = the C19 models (Model/Pixel.v, Model/Etc1.v) applied to the texture's own payload.
   The models are tied to /repo by `./check C20` (generated containers accepted by the extracted checkers,
   every prefix of every generated file, wrong magic numbers; debug and release builds).

   Names are in encoded form (bytes as stored; Shift-JIS in CTPK, UTF-8 in BCH/CGFX; TPL stores none).
   All four parsers are proved (none is `_partial`). *)
From Coq Require Import List NArith Bool.
From Mila Require Import Lib.Bytes Lib.Machine Model.Pixel Model.PixelSpec Model.Etc1 Model.TexCommon Model.TexFormat
  Model.Ctpk Model.Bch Model.Cgfx Model.Tpl
  Proofs.TexBase Proofs.TexMagic Proofs.TexCtpk Proofs.TexTpl Proofs.TexBch Proofs.TexCgfx Proofs.TexDecode Proofs.TexStatements Proofs.TexCgfxBackward Proofs.TexExamples.
Import ListNotations.
Local Open Scope N_scope.

(* ---------------------------------------------------------------- reading a conforming container
   Same number of textures, same order, same names (where stored), same dimensions, and the pixel data of
   each texture is the decoding of that texture's own payload: the result IS the list of the per-texture
   decodings (decode_all stops at the first texture whose decoding fails, as the readers do).
   CTPK and BCH compute the number of payload bytes as `(bpp * w as f32 * h as f32) as usize`; the models carry the
   binary32 rounding (payload_size32), and the hypothesis [f32_exact t] says that this request equals the true payload
   size bpp*w*h.  It holds for every payload below 8 MiB and for power-of-two sides of any size (C20_f32_exact_small,
   C20_f32_exact_pow2) and fails e.g. for a 4097 x 4099 L4 texture (C20_f32_inexact_witness: the reader asks for one byte
   too many).  CGFX stores the size in the file and TPL computes it in integers: no such hypothesis there. *)
Theorem C20_read_ctpk : forall m f texs, conforms_ctpk f texs -> Forall f32_exact texs ->
  read_ctpk m f = decode_all (decode_tex m) texs.
Proof. exact read_ctpk_correct. Qed.
Theorem C20_read_tpl : forall m f texs, conforms_tpl f texs -> read_tpl m f = decode_all decode_tpl_tex texs.
Proof. exact read_tpl_correct. Qed.
Theorem C20_read_bch : forall m f texs, conforms_bch f texs -> Forall f32_exact texs ->
  read_bch m f = decode_all (decode_tex m) texs.
Proof. exact read_bch_correct. Qed.
Theorem C20_read_cgfx : forall m f texs, conforms_cgfx f texs -> read_cgfx m f = decode_all (decode_tex m) texs.
Proof. exact read_cgfx_correct. Qed.

(* On the supported textures (the formats of C19: RGBA8, RGBA5551, RGB565, RGBA4, LA8, L8, A8 with sides that are
   multiples of 8, ETC1 and ETC1A4 with power-of-two sides >= 8; CI8 images whose visible pixels index into their RGB5A3 palette; the block padding is free) every decoding
   succeeds with the same pixels in both arithmetic modes, so the readers return exactly map decoded texs. *)
Theorem C20_decode_supported : forall m t, supported3ds t -> decode_tex m t = Ok (decoded t).
Proof. exact decode_tex_supported. Qed.
Theorem C20_decode_supported_tpl : forall t, supportedtpl t -> decode_tpl_tex t = Ok (tpl_decoded t).
Proof. exact decode_tpl_supported. Qed.
Theorem C20_decode_all_supported : forall m ts, Forall supported3ds ts -> decode_all (decode_tex m) ts = Ok (map decoded ts).
Proof. exact decode_all_supported. Qed.
Theorem C20_decode_all_supported_tpl : forall ts, Forall supportedtpl ts -> decode_all decode_tpl_tex ts = Ok (map tpl_decoded ts).
Proof. exact decode_all_tpl_supported. Qed.

(* the f32 payload-size request of ctpk.rs / bch.rs: when it is exact, and that it is not always *)
Theorem C20_f32_exact_small : forall t, bpp2 (t_fmt t) * t_w t * t_h t < 2 ^ 24 -> f32_exact t.
Proof. exact f32_exact_small. Qed.
Theorem C20_f32_exact_pow2 : forall t a b, t_w t = 8 * 2 ^ a -> t_h t = 8 * 2 ^ b -> f32_exact t.
Proof. exact f32_exact_pow2. Qed.
Theorem C20_f32_inexact_witness : payload_size 10 4097 4099 = 8396801 /\ payload_size32 10 4097 4099 = 8396802.
Proof. exact f32_inexact_witness. Qed.

(* hence, in the wording of the property: reading a conforming container of supported textures returns the
   textures in order, [decoded t] = (name of t, width, height, pixels of t's own payload), in both modes *)
Theorem C20_read_ctpk_supported : forall m f texs, conforms_ctpk f texs -> Forall supported3ds_f32 texs ->
  read_ctpk m f = Ok (map decoded texs).
Proof. exact read_ctpk_supported. Qed.
Theorem C20_read_tpl_supported : forall m f texs, conforms_tpl f texs -> Forall supportedtpl texs ->
  read_tpl m f = Ok (map tpl_decoded texs).
Proof. exact read_tpl_supported. Qed.
Theorem C20_read_bch_supported : forall m f texs, conforms_bch f texs -> Forall supported3ds_f32 texs ->
  read_bch m f = Ok (map decoded texs).
Proof. exact read_bch_supported. Qed.
Theorem C20_read_cgfx_supported : forall m f texs, conforms_cgfx f texs -> Forall supported3ds texs ->
  read_cgfx m f = Ok (map decoded texs).
Proof. exact read_cgfx_supported. Qed.

(* C20 composed with C19: pixel (X, Y) of texture i of a conforming container, read from the payload bytes of texture i:
   colour formats - decode_color of the element at the tiled (Morton) index (C19_pixel_source); TPL - the decoded RGB5A3
   palette entry selected by the block-data byte at ci8_index (C19_palette) *)
Theorem C20_pixel_ctpk : forall m f texs i t X Y, conforms_ctpk f texs -> Forall supported3ds_f32 texs ->
  nth_error texs i = Some t -> listed_color_format (t_fmt t) = true -> X < t_w t -> Y < t_h t ->
  exists out px, read_ctpk m f = Ok out /\
    nth_error out i = Some (mkTexture (t_name t) (t_w t) (t_h t) (flatten px)) /\
    length px = N.to_nat (t_w t * t_h t) /\
    nth_error px (N.to_nat (Y * t_w t + X)) =
      Some (decode_color (element (bytes_per_element (t_fmt t)) (t_data t) (tiled_index (t_w t) X Y)) (t_fmt t)).
Proof. exact ctpk_pixel. Qed.
Theorem C20_pixel_bch : forall m f texs i t X Y, conforms_bch f texs -> Forall supported3ds_f32 texs ->
  nth_error texs i = Some t -> listed_color_format (t_fmt t) = true -> X < t_w t -> Y < t_h t ->
  exists out px, read_bch m f = Ok out /\
    nth_error out i = Some (mkTexture (t_name t) (t_w t) (t_h t) (flatten px)) /\
    length px = N.to_nat (t_w t * t_h t) /\
    nth_error px (N.to_nat (Y * t_w t + X)) =
      Some (decode_color (element (bytes_per_element (t_fmt t)) (t_data t) (tiled_index (t_w t) X Y)) (t_fmt t)).
Proof. exact bch_pixel. Qed.
Theorem C20_pixel_cgfx : forall m f texs i t X Y, conforms_cgfx f texs -> Forall supported3ds texs ->
  nth_error texs i = Some t -> listed_color_format (t_fmt t) = true -> X < t_w t -> Y < t_h t ->
  exists out px, read_cgfx m f = Ok out /\
    nth_error out i = Some (mkTexture (t_name t) (t_w t) (t_h t) (flatten px)) /\
    length px = N.to_nat (t_w t * t_h t) /\
    nth_error px (N.to_nat (Y * t_w t + X)) =
      Some (decode_color (element (bytes_per_element (t_fmt t)) (t_data t) (tiled_index (t_w t) X Y)) (t_fmt t)).
Proof. exact cgfx_pixel. Qed.
Theorem C20_pixel_tpl : forall m f texs i t x y, conforms_tpl f texs -> Forall supportedtpl texs ->
  nth_error texs i = Some t -> x < t_w t -> y < t_h t ->
  exists out px, read_tpl m f = Ok out /\
    nth_error out i = Some (mkTexture [] (t_w t) (t_h t) (flatten px)) /\
    length px = N.to_nat (t_w t * t_h t) /\
    nth_error px (N.to_nat (y * t_w t + x)) =
      Some (decode_rgb5a3_pixel (be16_at (t_pal t) (nth (N.to_nat (ci8_index (t_w t) x y)) (t_data t) 0))).
Proof. exact tpl_pixel. Qed.

(* CGFX offsets are self-relative modulo 2^32: a payload, name or TXOB may lie in FRONT of the field that refers to it
   (conforms_cgfx admits it; C20_read_cgfx / C20_prefix_cgfx cover it in both modes).  Finding F23: before the repair the
   sum was a plain u32 `+`, which panics in a checked build on such a file and wraps to the right answer in release. *)
Theorem C20_cgfx_backward_F23 :
  conforms_cgfx back_cgfx [back_tex] /\
  read_cgfx_unrepaired Checked back_cgfx = Panic POverflow /\
  read_cgfx_unrepaired Wrapping back_cgfx = Ok [decoded back_tex].
Proof. exact cgfx_backward_unrepaired_panics. Qed.
Example C20_cgfx_backward_example :
  (cgfx_payload_at back_cgfx 0 161 /\ selfrel back_cgfx 40 301 /\ selfrel back_cgfx (301 + 28 + 12) 225 /\ 161 < 225) /\
  read_cgfx Checked back_cgfx = Ok [decoded back_tex] /\ read_cgfx Wrapping back_cgfx = Ok [decoded back_tex].
Proof. split; [exact back_is_backward | exact back_read]. Qed.

(* ---------------------------------------------------------------- wrong magic number (BCH, CGFX, TPL) *)
Theorem C20_bad_magic_bch : forall m f v, u32_at LE f 0 = Some v -> v <> BCH_MAGIC -> read_bch m f = Err EBadMagic.
Proof. exact bch_bad_magic. Qed.
Theorem C20_bad_magic_cgfx : forall m f v, u32_at LE f 0 = Some v -> v <> CGFX_MAGIC -> read_cgfx m f = Err EBadMagic.
Proof. exact cgfx_bad_magic. Qed.
Theorem C20_bad_magic_tpl : forall m f v, u32_at BE f 0 = Some v -> v <> TPL_MAGIC -> read_tpl m f = Err EBadMagic.
Proof. exact tpl_bad_magic. Qed.
(* ... and input too short to hold a magic number is rejected as well *)
Theorem C20_bad_magic :
  (forall m f, u32_at LE f 0 <> Some BCH_MAGIC -> exists e, read_bch m f = Err e) /\
  (forall m f, u32_at LE f 0 <> Some CGFX_MAGIC -> exists e, read_cgfx m f = Err e) /\
  (forall m f, u32_at BE f 0 <> Some TPL_MAGIC -> exists e, read_tpl m f = Err e).
Proof. exact bad_magic_rejected. Qed.

(* ---------------------------------------------------------------- strict prefixes of conforming files
   For every k < |f|: reading the first k bytes never panics, in either arithmetic mode, and is an error
   whenever the cut removes part of a texture payload: [cuts k off data] = the payload stored at off (where
   the file's own tables locate it: *_payload_at) is not empty and does not end before k.
   Hypothesis on the textures: decoding their own payload does not panic (true for every supported texture,
   C20_supported_no_panic; for TPL it holds for every texture, so the theorem has no such hypothesis). *)
Theorem C20_prefix_ctpk : forall m f texs k, conforms_ctpk f texs -> Forall f32_exact texs ->
  Forall (fun t => no_panic (decode_tex m t)) texs -> k < lenN f ->
  no_panic (read_ctpk m (firstn (N.to_nat k) f)) /\
  (forall i t off, nth_error texs i = Some t -> ctpk_payload_at f (N.of_nat i) off -> cuts k off (t_data t) ->
     is_err (read_ctpk m (firstn (N.to_nat k) f))).
Proof. exact ctpk_prefix. Qed.
Theorem C20_prefix_bch : forall m f texs k, conforms_bch f texs -> Forall f32_exact texs ->
  Forall (fun t => no_panic (decode_tex m t)) texs -> k < lenN f ->
  no_panic (read_bch m (firstn (N.to_nat k) f)) /\
  (forall i t off, nth_error texs i = Some t -> bch_payload_at f (N.of_nat i) off -> cuts k off (t_data t) ->
     is_err (read_bch m (firstn (N.to_nat k) f))).
Proof. exact bch_prefix. Qed.
Theorem C20_prefix_cgfx : forall m f texs k, conforms_cgfx f texs ->
  Forall (fun t => no_panic (decode_tex m t)) texs -> k < lenN f ->
  no_panic (read_cgfx m (firstn (N.to_nat k) f)) /\
  (forall i t off, nth_error texs i = Some t -> cgfx_payload_at f (N.of_nat i) off -> cuts k off (t_data t) ->
     is_err (read_cgfx m (firstn (N.to_nat k) f))).
Proof. exact cgfx_prefix. Qed.
Theorem C20_prefix_tpl : forall m f texs k, conforms_tpl f texs -> k < lenN f ->
  no_panic (read_tpl m (firstn (N.to_nat k) f)) /\
  (forall i t off, nth_error texs i = Some t ->
     (tpl_image_at f (N.of_nat i) off /\ cuts k off (t_data t)) \/ (tpl_palette_at f (N.of_nat i) off /\ cuts k off (t_pal t)) ->
     is_err (read_tpl m (firstn (N.to_nat k) f))).
Proof. exact tpl_prefix_nohyp. Qed.
Theorem C20_supported_no_panic : forall m ts, Forall supported3ds ts -> Forall (fun t => no_panic (decode_tex m t)) ts.
Proof. exact supported_no_panic. Qed.

(* the same for containers of supported textures, in the wording of the property: never a Panic, and an Err
   whenever the cut removes part of a texture payload *)
Theorem C20_prefix_ctpk_supported : forall m f texs k, conforms_ctpk f texs -> Forall supported3ds_f32 texs -> k < lenN f ->
  (forall p, read_ctpk m (firstn (N.to_nat k) f) <> Panic p) /\
  (forall i t off, nth_error texs i = Some t -> ctpk_payload_at f (N.of_nat i) off -> cuts k off (t_data t) ->
     exists e, read_ctpk m (firstn (N.to_nat k) f) = Err e).
Proof. exact ctpk_prefix_supported. Qed.
Theorem C20_prefix_bch_supported : forall m f texs k, conforms_bch f texs -> Forall supported3ds_f32 texs -> k < lenN f ->
  (forall p, read_bch m (firstn (N.to_nat k) f) <> Panic p) /\
  (forall i t off, nth_error texs i = Some t -> bch_payload_at f (N.of_nat i) off -> cuts k off (t_data t) ->
     exists e, read_bch m (firstn (N.to_nat k) f) = Err e).
Proof. exact bch_prefix_supported. Qed.
Theorem C20_prefix_cgfx_supported : forall m f texs k, conforms_cgfx f texs -> Forall supported3ds texs -> k < lenN f ->
  (forall p, read_cgfx m (firstn (N.to_nat k) f) <> Panic p) /\
  (forall i t off, nth_error texs i = Some t -> cgfx_payload_at f (N.of_nat i) off -> cuts k off (t_data t) ->
     exists e, read_cgfx m (firstn (N.to_nat k) f) = Err e).
Proof. exact cgfx_prefix_supported. Qed.
Theorem C20_prefix_tpl_all : forall m f texs k, conforms_tpl f texs -> k < lenN f ->
  (forall p, read_tpl m (firstn (N.to_nat k) f) <> Panic p) /\
  (forall i t off, nth_error texs i = Some t ->
     (tpl_image_at f (N.of_nat i) off /\ cuts k off (t_data t)) \/ (tpl_palette_at f (N.of_nat i) off /\ cuts k off (t_pal t)) ->
     exists e, read_tpl m (firstn (N.to_nat k) f) = Err e).
Proof. exact tpl_prefix_all. Qed.

(* ---------------------------------------------------------------- the checkers used on generated files *)
Theorem C20_checker_ctpk : forall f texs, conforms_ctpkb f texs = true -> conforms_ctpk f texs.
Proof. exact conforms_ctpkb_sound. Qed.
Theorem C20_checker_bch : forall f texs, conforms_bchb f texs = true -> conforms_bch f texs.
Proof. exact conforms_bchb_sound. Qed.
Theorem C20_checker_cgfx : forall f texs, conforms_cgfxb f texs = true -> conforms_cgfx f texs.
Proof. exact conforms_cgfxb_sound. Qed.
Theorem C20_checker_tpl : forall f texs, conforms_tplb f texs = true -> conforms_tpl f texs.
Proof. exact conforms_tplb_sound. Qed.

(* ---------------------------------------------------------------- non-vacuity
   One container per format written by the Python reference writer (tables, name and payload permuted, junk
   in the gaps, trailing junk): it conforms, its texture is supported, the model reads it, and a prefix
   that keeps the payload but loses the end of the file is handled as the theorems say. *)
Definition ex_ctpk_tex : tex :=
  mkTex [131;101;120] 8 8 7
    [11;48;85;122;159;196;233;14;51;88;125;162;199;236;17;54;91;128;165;202;239;20;57;94;131;168;205;242;23;60;97;134;171;208;245;26;63;100;137;174;211;248;29;66;103;140;177;214;251;32;69;106;143;180;217;254;35;72;109;146;183;220;1;38]
    [].
Definition ex_ctpk : bytes :=
   [67;84;80;75;1;0;1;0;67;0;0;0;64;0;0;0;0;0;0;0;0;0;0;0;0;0;0;0;0;0;0;0;131;0;0;0;64;0;0;0;0;0;0;0;7;0;0;0;
   8;0;8;0;1;0;0;0;0;0;0;0;0;0;0;0;202;24;37;11;48;85;122;159;196;233;14;51;88;125;162;199;236;17;54;91;128;
   165;202;239;20;57;94;131;168;205;242;23;60;97;134;171;208;245;26;63;100;137;174;211;248;29;66;103;140;177;
   214;251;32;69;106;143;180;217;254;35;72;109;146;183;220;1;38;131;101;120;0;26].

Definition ex_bch_tex : tex :=
  mkTex [116;195;169;120] 8 8 7
    [11;48;85;122;159;196;233;14;51;88;125;162;199;236;17;54;91;128;165;202;239;20;57;94;131;168;205;242;23;60;97;134;171;208;245;26;63;100;137;174;211;248;29;66;103;140;177;214;251;32;69;106;143;180;217;254;35;72;109;146;183;220;1;38]
    [].
Definition ex_bch : bytes :=
   [66;67;72;0;33;33;0;160;70;0;0;0;0;1;0;0;122;0;0;0;189;0;0;0;0;0;0;0;0;0;0;0;0;0;0;0;0;0;0;0;0;0;0;0;0;0;0;
   0;0;0;0;0;0;0;0;0;0;0;0;0;0;0;0;0;13;36;106;192;76;129;0;0;0;0;0;0;0;0;0;0;0;0;0;0;0;0;0;0;0;0;0;0;0;0;0;0;
   0;0;0;0;0;0;0;0;0;0;48;0;0;0;1;0;0;0;0;0;0;0;82;0;0;0;8;0;8;0;0;0;0;0;0;0;0;0;0;0;0;0;0;0;0;0;0;0;0;0;7;0;
   0;0;249;238;0;0;0;0;0;0;0;0;0;0;0;0;0;0;0;0;0;0;0;0;0;0;0;0;0;0;0;0;0;0;0;0;43;73;52;175;135;11;48;85;122;
   159;196;233;14;51;88;125;162;199;236;17;54;91;128;165;202;239;20;57;94;131;168;205;242;23;60;97;134;171;
   208;245;26;63;100;137;174;211;248;29;66;103;140;177;214;251;32;69;106;143;180;217;254;35;72;109;146;183;
   220;1;38;11;105;185;116;195;169;120;0;158;111].

Definition ex_cgfx_tex : tex :=
  mkTex [116;195;169;120] 8 8 7
    [11;48;85;122;159;196;233;14;51;88;125;162;199;236;17;54;91;128;165;202;239;20;57;94;131;168;205;242;23;60;97;134;171;208;245;26;63;100;137;174;211;248;29;66;103;140;177;214;251;32;69;106;143;180;217;254;35;72;109;146;183;220;1;38]
    [].
Definition ex_cgfx : bytes :=
   [67;71;70;88;255;254;20;0;0;0;0;5;111;1;0;0;1;0;0;0;68;65;84;65;0;0;0;0;0;0;0;0;0;0;0;0;1;0;0;0;117;0;0;0;
   0;0;0;0;0;0;0;0;0;0;0;0;0;0;0;0;0;0;0;0;0;0;0;0;0;0;0;0;0;0;0;0;0;0;0;0;0;0;0;0;0;0;0;0;0;0;0;0;0;0;0;0;0;
   0;0;0;0;0;0;0;0;0;0;0;0;0;0;0;0;0;0;0;0;0;0;0;0;0;0;0;0;0;0;0;0;0;0;0;0;0;0;0;0;0;0;0;0;0;0;0;0;0;0;0;0;0;
   0;0;0;0;0;0;171;68;73;67;84;44;0;0;0;1;0;0;0;255;255;255;255;1;0;0;0;0;0;0;0;0;0;0;0;0;0;0;0;0;0;0;0;162;0;
   0;0;13;0;0;0;102;127;2;46;135;45;73;204;21;17;0;0;32;84;88;79;66;0;0;0;0;133;0;0;0;0;0;0;0;0;0;0;0;8;0;0;0;
   8;0;0;0;0;0;0;0;0;0;0;0;1;0;0;0;0;0;0;0;0;0;0;0;7;0;0;0;0;0;0;0;0;0;0;0;0;0;0;0;64;0;0;0;9;0;0;0;155;119;
   43;79;199;11;48;85;122;159;196;233;14;51;88;125;162;199;236;17;54;91;128;165;202;239;20;57;94;131;168;205;
   242;23;60;97;134;171;208;245;26;63;100;137;174;211;248;29;66;103;140;177;214;251;32;69;106;143;180;217;254;
   35;72;109;146;183;220;1;38;116;195;169;120;0;1;33;12;119;54;243;238].

Definition ex_tpl_tex : tex :=
  mkTex [] 4 3 9
    [0;1;2;3;0;1;2;3;0;1;2;3;0;1;2;3;0;1;2;3;0;1;2;3;0;1;2;3;0;1;2;3]
    [128;31;124;0;3;224;255;255].
Definition ex_tpl : bytes :=
   [0;32;175;48;0;0;0;1;0;0;0;20;93;4;155;77;120;167;163;235;0;0;0;53;0;0;0;97;40;101;200;81;126;208;33;17;
   246;166;128;31;124;0;3;224;255;255;53;36;135;43;106;49;215;0;3;0;4;0;0;0;9;0;0;0;119;0;0;0;0;0;0;0;0;0;0;0;
   0;0;0;0;0;0;0;0;0;0;0;0;0;88;119;68;213;235;120;62;150;0;4;0;0;0;0;0;2;0;0;0;38;137;190;130;133;101;224;
   126;95;125;120;0;1;2;3;0;1;2;3;0;1;2;3;0;1;2;3;0;1;2;3;0;1;2;3;0;1;2;3;0;1;2;3;234;91].

Example C20_ctpk_example :
  conforms_ctpk ex_ctpk [ex_ctpk_tex] /\ read_ctpk Checked ex_ctpk = Ok [decoded ex_ctpk_tex] /\
  read_ctpk Wrapping ex_ctpk = Ok [decoded ex_ctpk_tex].
Proof. split; [apply conforms_ctpkb_sound; vm_compute; reflexivity|]. split; vm_compute; reflexivity. Qed.
Example C20_bch_example :
  conforms_bch ex_bch [ex_bch_tex] /\ read_bch Checked ex_bch = Ok [decoded ex_bch_tex] /\
  read_bch Wrapping ex_bch = Ok [decoded ex_bch_tex].
Proof. split; [apply conforms_bchb_sound; vm_compute; reflexivity|]. split; vm_compute; reflexivity. Qed.
Example C20_cgfx_example :
  conforms_cgfx ex_cgfx [ex_cgfx_tex] /\ read_cgfx Checked ex_cgfx = Ok [decoded ex_cgfx_tex] /\
  read_cgfx Wrapping ex_cgfx = Ok [decoded ex_cgfx_tex].
Proof. split; [apply conforms_cgfxb_sound; vm_compute; reflexivity|]. split; vm_compute; reflexivity. Qed.
Example C20_tpl_example :
  conforms_tpl ex_tpl [ex_tpl_tex] /\ read_tpl Checked ex_tpl = Ok [tpl_decoded ex_tpl_tex].
Proof. split; [apply conforms_tplb_sound; vm_compute; reflexivity|]. vm_compute; reflexivity. Qed.

(* the example textures are supported: 8x8 L8 (format 7); a 4x3 CI8 image over a four-colour palette *)
Example C20_examples_supported : supported3ds_f32 ex_ctpk_tex /\ supported3ds_f32 ex_bch_tex /\ supportedtpl ex_tpl_tex.
Proof.
  split; [|split].
  - split; [|reflexivity]. split; [left; repeat split; reflexivity|]. split; reflexivity.
  - split; [|reflexivity]. split; [left; repeat split; reflexivity|]. split; reflexivity.
  - split; [cbn; discriminate|]. split; [cbn; discriminate|]. split; [reflexivity|]. split; [reflexivity|].
    intros x y Hx Hy. cbn [ex_tpl_tex t_w t_h] in Hx, Hy.
    assert (Cx : x = 0 \/ x = 1 \/ x = 2 \/ x = 3) by (clear - Hx; destruct x as [|[[[]|[]|]|[[]|[]|]|]]; try (vm_compute in Hx; discriminate); auto).
    assert (Cy : y = 0 \/ y = 1 \/ y = 2) by (clear - Hy; destruct y as [|[[[]|[]|]|[[]|[]|]|]]; try (vm_compute in Hy; discriminate); auto).
    destruct Cx as [->|[->|[->| ->]]]; destruct Cy as [->|[->| ->]]; vm_compute; reflexivity.
Qed.

(* containers with no texture and with several textures of different formats (Proofs/TexExamples.v): RGBA8 8x8 + RGB565 16x8 +
   ETC1 8x8 in CTPK / BCH / CGFX (the CGFX one with backward offsets), CI8 4x3 + 9x5 in TPL (junk indices in the padding) *)
Example C20_examples_many :
  conforms_ctpk mx_ctpk [mx_ctpk_t0; mx_ctpk_t1; mx_ctpk_t2] /\ conforms_ctpk mx_ctpk_empty [] /\
  conforms_bch mx_bch [mx_bch_t0; mx_bch_t1; mx_bch_t2] /\ conforms_bch mx_bch_empty [] /\
  conforms_cgfx mx_cgfx [mx_cgfx_t0; mx_cgfx_t1; mx_cgfx_t2] /\ conforms_cgfx mx_cgfx_empty [] /\
  conforms_tpl mx_tpl [mx_tpl_t0; mx_tpl_t1] /\ conforms_tpl mx_tpl_empty [].
Proof. exact mx_conform. Qed.
Example C20_examples_many_supported :
  Forall supported3ds_f32 [mx_ctpk_t0; mx_ctpk_t1; mx_ctpk_t2] /\ Forall supported3ds_f32 [mx_bch_t0; mx_bch_t1; mx_bch_t2] /\
  Forall supported3ds [mx_cgfx_t0; mx_cgfx_t1; mx_cgfx_t2].
Proof. exact mx_3ds_supported. Qed.
Example C20_examples_many_supported_tpl :
  Forall supportedtpl [mx_tpl_t0; mx_tpl_t1] /\ In 200 (t_data mx_tpl_t1) /\ lenN (t_pal mx_tpl_t1) / 2 = 3.
Proof. split; [exact mx_tpl_supported | exact mx_tpl_padding_junk]. Qed.
Example C20_examples_many_read :
  read_ctpk Checked mx_ctpk = Ok (map decoded [mx_ctpk_t0; mx_ctpk_t1; mx_ctpk_t2]) /\ read_ctpk Wrapping mx_ctpk_empty = Ok [] /\
  read_bch Checked mx_bch = Ok (map decoded [mx_bch_t0; mx_bch_t1; mx_bch_t2]) /\ read_bch Wrapping mx_bch_empty = Ok [] /\
  read_cgfx Checked mx_cgfx = Ok (map decoded [mx_cgfx_t0; mx_cgfx_t1; mx_cgfx_t2]) /\ read_cgfx Wrapping mx_cgfx_empty = Ok [] /\
  read_tpl Checked mx_tpl = Ok (map tpl_decoded [mx_tpl_t0; mx_tpl_t1]) /\ read_tpl Wrapping mx_tpl_empty = Ok [].
Proof. exact mx_read. Qed.

(* prefixes of the CTPK example (payload at 67..131, the name behind it at 133): a cut inside the payload is
   rejected; a cut inside the name is accepted with a shorter name or rejected as malformed text *)
Example C20_prefix_example :
  ctpk_payload_at ex_ctpk 0 67 /\ cuts 100 67 (t_data ex_ctpk_tex) /\
  read_ctpk Checked (firstn 100 ex_ctpk) = Err EIo /\
  read_ctpk Checked (firstn 133 ex_ctpk) = Err EEncoding /\
  (exists x, read_ctpk Checked (firstn 134 ex_ctpk) = Ok [x] /\ x_name x = [131; 101]).
Proof.
  split; [exists 67, 0; split; [vm_compute; reflexivity | split; [vm_compute; reflexivity | reflexivity]]|].
  split; [split; vm_compute; reflexivity|].
  split; [vm_compute; reflexivity|]. split; [vm_compute; reflexivity|].
  eexists. split; [vm_compute; reflexivity | vm_compute; reflexivity].
Qed.
