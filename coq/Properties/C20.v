(* C20 - texture containers yield the packed textures and fail cleanly when truncated.
   Models: Model/Ctpk.v, Model/Bch.v, Model/Cgfx.v, Model/Tpl.v (machine level, both arithmetic modes);
   format relations written independently of them: Model/TexFormat.v. *)
From Coq Require Import List NArith Bool.
From Mila Require Import Lib.Bytes Lib.Machine Model.TexCommon Model.TexFormat Model.Ctpk Model.Bch Model.Cgfx Model.Tpl
  Proofs.TexMagic.
Import ListNotations.
Local Open Scope N_scope.

(* BCH, CGFX and TPL input with a wrong magic number is rejected (with the bad-magic error when four bytes are there) *)
Theorem C20_bad_magic_bch : forall m f v, u32_at LE f 0 = Some v -> v <> BCH_MAGIC -> read_bch m f = Err EBadMagic.
Proof. exact bch_bad_magic. Qed.
Theorem C20_bad_magic_cgfx : forall m f v, u32_at LE f 0 = Some v -> v <> CGFX_MAGIC -> read_cgfx m f = Err EBadMagic.
Proof. exact cgfx_bad_magic. Qed.
Theorem C20_bad_magic_tpl : forall m f v, u32_at BE f 0 = Some v -> v <> TPL_MAGIC -> read_tpl m f = Err EBadMagic.
Proof. exact tpl_bad_magic. Qed.
Theorem C20_bad_magic :
  (forall m f, u32_at LE f 0 <> Some BCH_MAGIC -> exists e, read_bch m f = Err e) /\
  (forall m f, u32_at LE f 0 <> Some CGFX_MAGIC -> exists e, read_cgfx m f = Err e) /\
  (forall m f, u32_at BE f 0 <> Some TPL_MAGIC -> exists e, read_tpl m f = Err e).
Proof. exact bad_magic_rejected. Qed.
