(* C10 - compressed size is bounded and repetition is actually exploited.
   Statements only; every proof is [exact <lemma>].
   Models: Model/LZCore.v (get_occurrence_length: window min(pos, 0x1000), candidates down to displacement 2,
   earliest longest match, early exit; the greedy loop with look-ahead 0x12 / 0x1000 and the literal
   decision length < 3), Model/LZ10.v, Model/LZ11.v (byte emission); tied to /repo by `./check C10`.
   Both bounds are proved for all inputs / all periods 1..4096, all contents and all lengths.
   LZ13 header: 8 bytes (wrapper + LZ11 header) for a non-empty input below 16 MiB; 12 bytes when the
   extended size form is written (empty input - the repair of F12 - or 16 MiB and more). *)
From Coq Require Import List Arith NArith Bool Lia.
From Mila Require Import Lib.Bytes Lib.Machine Model.LZCore Model.LZ10 Model.LZ11 Proofs.LZSizeProofs Proofs.LZRoundTripExt Proofs.LZFormat.
Import ListNotations.

(* header + input length + one flag byte per eight input bytes *)
Theorem C10_expansion_lz10 : forall x, length (compress10 x) <= 4 + length x + (length x + 7) / 8.
Proof. exact compress10_expansion. Qed.

Theorem C10_expansion_lz13 : forall m x c, (lenN x < 2 ^ 63)%N -> compress13 m x = Ok c ->
  length c <= (if andb (0 <? lenN x)%N (lenN x <? 2 ^ 24)%N then 8 else 12) + length x + (length x + 7) / 8.
Proof. exact compress13_expansion. Qed.

(* an input with period p <= 4096: header, p+2 literals, ceil((n-p)/L)+1 references of r bytes, one flag
   byte per eight tokens; (r, L) = (2, 18) for LZ10 and (4, 4096) for LZ13 *)
Theorem C10_periodic_lz10 : forall p x, periodic p x -> 1 <= p <= 4096 ->
  let refs := (length x - p + 17) / 18 + 1 in
  length (compress10 x) <= 4 + (p + 2) + 2 * refs + ((p + 2) + refs + 7) / 8.
Proof. exact compress10_periodic. Qed.

Theorem C10_periodic_lz13 : forall m p x c, periodic p x -> 1 <= p <= 4096 -> (lenN x < 2 ^ 63)%N -> compress13 m x = Ok c ->
  let refs := (length x - p + 4095) / 4096 + 1 in
  length c <= (if andb (0 <? lenN x)%N (lenN x <? 2 ^ 24)%N then 8 else 12) + (p + 2) + 4 * refs + ((p + 2) + refs + 7) / 8.
Proof. exact compress13_periodic. Qed.

(* the same four bounds for the EXPORTED functions (size guards of F21 in front: compress10_o, compress13_o): whenever
   compression returns Ok - no size hypothesis - the output obeys the bounds *)
Theorem C10_exported_lz10 : forall x c, compress10_o x = Ok c ->
  length c <= 4 + length x + (length x + 7) / 8 /\
  (forall p, periodic p x -> 1 <= p <= 4096 ->
     let refs := (length x - p + 17) / 18 + 1 in
     length c <= 4 + (p + 2) + 2 * refs + ((p + 2) + refs + 7) / 8).
Proof.
  intros x c Hc. destruct (compress10_o_ok_inv x c Hc) as [_ ->].
  split; [exact (compress10_expansion x) | intros p Hp Hr; exact (compress10_periodic p x Hp Hr)].
Qed.

Theorem C10_exported_lz13 : forall m x c, compress13_o m x = Ok c ->
  let hdr := if andb (0 <? lenN x)%N (lenN x <? 2 ^ 24)%N then 8 else 12 in
  length c <= hdr + length x + (length x + 7) / 8 /\
  (forall p, periodic p x -> 1 <= p <= 4096 ->
     let refs := (length x - p + 4095) / 4096 + 1 in
     length c <= hdr + (p + 2) + 4 * refs + ((p + 2) + refs + 7) / 8).
Proof.
  intros m x c Hc. destruct (compress13_o_ok_inv m x c Hc) as [Hn Hc'].
  assert (H63 : (lenN x < 2 ^ 63)%N).
  { change (2 ^ 32)%N with 4294967296%N in Hn. change (2 ^ 63)%N with 9223372036854775808%N. lia. }
  split; [exact (compress13_expansion m x c H63 Hc') | intros p Hp Hr; exact (compress13_periodic m p x c Hp Hr H63 Hc')].
Qed.

(* the lemma that carries the argument: from position max(p,2) on, the search reports the whole look-ahead *)
Theorem C10_longest_match : forall L x d, 3 <= L -> periodic d x -> 2 <= d <= 4096 ->
  forall pos, d <= pos -> pos < length x ->
  fst (occ x pos (Nat.min (length x - pos) L) (pos - Nat.min pos WINDOW) (Nat.min pos WINDOW)) = Nat.min (length x - pos) L.
Proof. exact occ_periodic. Qed.

(* non-vacuity: 60 bytes of period 3 take 16 bytes in LZ10 (bound 4+5+2*5+2 = 21) and 15 in LZ13 (bound 8+5+4*2+1 = 22) *)
Example C10_example :
  let x := concat (repeat [1%N; 2%N; 3%N] 20) in
  periodic 3 x /\ length (compress10 x) = 16 /\
  exists c, compress13 Checked x = Ok c /\ length c = 15.
Proof.
  split; [|split; [vm_compute; reflexivity | eexists; split; [vm_compute; reflexivity | vm_compute; reflexivity]]].
  intros i Hi. cbv zeta in Hi.
  assert (Hl : length (concat (repeat [1%N; 2%N; 3%N] 20)) = 60) by reflexivity. rewrite Hl in Hi.
  assert (Hi' : i < 57) by lia. clear Hi Hl.
  do 57 (destruct i as [|i]; [reflexivity|apply Nat.succ_lt_mono in Hi']). inversion Hi'.
Qed.
