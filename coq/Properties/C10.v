(* C10 - compressed size is bounded and repetition is actually exploited.
   Statements only; every proof is [exact <lemma>]. *)
From Coq Require Import List NArith Bool.
From Mila Require Import Lib.Bytes Lib.Machine Model.LZCore Model.LZ10 Model.LZ11 Proofs.LZCoreProofs.
Import ListNotations.

(* placeholder until the size lemmas are in: every reported match is at most the look-ahead *)
Theorem C10_tokens_expand : forall L x, expand (tokens L x) = Some x.
Proof. exact tokens_expand. Qed.
