(* C15 - stub while the proofs are being written *)
From Coq Require Import List NArith Bool.
From Mila Require Import Lib.Bytes Lib.Machine Model.Pack Model.PackFormat.
Import ListNotations.
Local Open Scope N_scope.

Theorem C15_empty_archive : serialize [] = Ok [112;97;99;107;0;0;0;0;0;0;0;0;0;0;0;0;0;0;0;0;0;0;0;0;0;0;0;0;0;0;0;0].
Proof. vm_compute. reflexivity. Qed.
