(* C15 - GameCube/Wii pack archive: build -> parse is identity, layout is aligned, the parser is
   correct on every conforming image.

   Format relation (written independently of both functions): Model/PackFormat.v  conforms_pack
   Model of src/fe9_arc.rs (after the repairs F7, F8, F26):          Model/Pack.v        parse, serialize
   tied to /repo by `./check C15` (serialize byte-exact, parse on reference-written images that the
   extracted conforms_packb accepted, the game file, malformed inputs in both build profiles).

   Names are in encoded form (NUL-free Shift-JIS bytes, assumption A-codec): read at the level of Rust Strings the theorems
   speak about names s with decode (encode s) = s.  "Shift-JIS-representable" is therefore narrower than "encodes without
   error": U+00A5, U+203E and U+2212 encode (to 5C, 7E, 81 7C) but come back as U+005C, U+007E, U+FF0D - a file named
   "\u{A5}a" is found again under "\\a" (outside the domain, as in C01 and C06).  Hypotheses that are
   limits of the FORMAT: at most 65535 files (16-bit count) and an image below 4 GiB (32-bit addresses and sizes) - beyond
   them serialize returns an error since the repair F26 (530f18c; C15_serialize_rejects_too_many / _too_large).  The
   hypotheses `<= 65535` and fits32 remain only where SUCCESS must be guaranteed (C15_serialize_conforms, C15_round_trip);
   C15_serialize_Ok_conforms / C15_round_trip_of_Ok need neither. *)
From Coq Require Import List NArith Bool.
From Mila Require Import Lib.Bytes Lib.Machine Model.PackFormat Model.Pack
  Proofs.PackFormatProofs Proofs.PackParse Proofs.PackSerialize.
Import ListNotations.
Local Open Scope N_scope.

(* the parser extracts exactly the files of any conforming image, in order, wherever names and
   bodies are placed, in both arithmetic modes *)
Theorem C15_parser_correct : forall f files,
  wfb f -> conforms_pack f files -> forall m, parse m f = Ok files.
Proof. exact parser_correct. Qed.

(* ... and its buffer requests are exactly the file sizes *)
Theorem C15_parser_allocs : forall f files,
  wfb f -> conforms_pack f files -> forall m, parse_allocs m f = map (fun e => lenN (snd e)) files.
Proof. exact parser_correct_allocs. Qed.

(* the builder writes a conforming image; header count = |files|; for every file the recorded
   name address is where the name stands, the recorded address is a multiple of 32 and holds the
   body, the recorded size is the body's length *)
Theorem C15_serialize_conforms : forall files,
  wf_files files -> N.of_nat (length files) <= 65535 -> fits32 files ->
  exists f, serialize files = Ok f /\ conforms_pack f files /\
    (forall i e, nth_error files i = Some e ->
       exists na fa sz, fields_at f (N.of_nat i) na fa sz /\ name_at f na (fst e) /\
                        sliceN fa sz f = Some (snd e) /\ fa mod 32 = 0 /\ sz = lenN (snd e)) /\
    u16_at BE f 4 = Some (N.of_nat (length files)) /\ wfb f.
Proof. exact serialize_conforms. Qed.

Theorem C15_round_trip : forall files,
  wf_files files -> N.of_nat (length files) <= 65535 -> fits32 files ->
  forall m, exists f, serialize files = Ok f /\ parse m f = Ok files.
Proof. exact round_trip. Qed.
(* the two size hypotheses above GUARANTEE success; they are not needed for correctness: since F26 (530f18c) success of
   serialize itself implies "at most 65535 files, image below 4 GiB", so whatever serialize returns for distinct NUL-free
   names conforms, and parses back to the same files *)
Theorem C15_serialize_Ok_conforms : forall files f,
  wf_files files -> serialize files = Ok f ->
  conforms_pack f files /\
  (forall i e, nth_error files i = Some e ->
     exists na fa sz, fields_at f (N.of_nat i) na fa sz /\ name_at f na (fst e) /\
                      sliceN fa sz f = Some (snd e) /\ fa mod 32 = 0 /\ sz = lenN (snd e)) /\
  u16_at BE f 4 = Some (N.of_nat (length files)) /\ wfb f /\ N.of_nat (length files) <= 65535 /\ lenN f < 2 ^ 32.
Proof. exact serialize_Ok_conforms. Qed.
Theorem C15_round_trip_of_Ok : forall files f,
  wf_files files -> serialize files = Ok f -> forall m, parse m f = Ok files.
Proof. exact round_trip_of_Ok. Qed.

(* the boolean checker used (extracted) to validate generated images decides the format relation *)
Theorem C15_checker_sound : forall f files, conforms_packb f files = true -> conforms_pack f files.
Proof. exact conforms_packb_sound. Qed.
Theorem C15_checker_complete : forall f files, conforms_pack f files -> conforms_packb f files = true.
Proof. exact conforms_packb_complete. Qed.

(* F26 (repaired, 530f18c): more than 65535 files, or an image of 4 GiB or more, is REJECTED.  Before the repair the count was
   written `as u16` and every address / size `as u32`: 65536 files gave a header count 0, one file of 2^32 bytes a size
   field 0 (parse then returned it as 0 bytes) - silently.  [image files] (Proofs/PackSerialize.v) is the assembled image;
   serialize succeeds EXACTLY when both limits hold. *)
Theorem C15_serialize_rejects_too_many : forall files, 65535 < N.of_nat (length files) -> serialize files = Err EOther.
Proof. exact serialize_rejects_too_many. Qed.
Theorem C15_serialize_rejects_too_large : forall files, 2 ^ 32 <= lenN (image files) -> serialize files = Err EOther.
Proof. exact serialize_rejects_too_large. Qed.
Theorem C15_serialize_rejects_big_contents : forall files,
  2 ^ 32 <= fold_right (fun b acc => lenN b + acc) 0 (map snd files) -> serialize files = Err EOther.
Proof. exact serialize_rejects_big_contents. Qed.
Theorem C15_serialize_Ok_iff : forall files,
  (exists f, serialize files = Ok f) <-> N.of_nat (length files) <= 65535 /\ lenN (image files) < 2 ^ 32.
Proof. exact serialize_Ok_iff. Qed.
Theorem C15_serialize_never_panics : forall files k, serialize files <> Panic k.
Proof. exact serialize_never_panics. Qed.

(* ---------------------------------------------------------------- non-vacuity *)
(* the empty archive and an archive with an empty file, a 32-byte file and a 33-byte file meet
   the hypotheses of the builder theorems *)
Definition ex_files : list (bytes * bytes) :=
  [([97], []); ([97; 98], repeat 7 32); ([131; 92], repeat 255 33)].
Example C15_hypotheses_satisfiable :
  wf_files [] /\ fits32 [] /\ wf_files ex_files /\ fits32 ex_files /\ N.of_nat (length ex_files) <= 65535.
Proof.
  assert (W7 : forall n, wfb (repeat 7 n)) by (induction n; constructor; [reflexivity | assumption]).
  assert (W255 : forall n, wfb (repeat 255 n)) by (induction n; constructor; [reflexivity | assumption]).
  split; [split; constructor|]. split; [reflexivity|]. split; [|split; [reflexivity | vm_compute; discriminate]].
  split.
  - repeat constructor; cbn; intuition discriminate.
  - repeat constructor; try (cbn; intuition discriminate); try apply W7; try apply W255; reflexivity.
Qed.

(* a conforming image that the builder would never write: the bodies come first, the second body
   is stored inside the first one, the names come last and "b" is the tail of "ab", junk between *)
Definition ex_image : bytes :=
  [112;97;99;107; 0;2; 9;9;
   1;2;3;4; 0;0;0;47; 0;0;0;41; 0;0;0;4;
   0;0;0;0; 0;0;0;48; 0;0;0;42; 0;0;0;2;
   255; 10;11;12;13; 0;255; 97;98;0].
Example C15_conforming_foreign_layout :
  wfb ex_image /\ conforms_pack ex_image [([97;98], [10;11;12;13]); ([98], [11;12])] /\
  parse Checked ex_image = Ok [([97;98], [10;11;12;13]); ([98], [11;12])].
Proof.
  split; [apply wfbb_spec; vm_compute; reflexivity|]. split; [apply conforms_packb_sound; vm_compute; reflexivity|].
  vm_compute. reflexivity.
Qed.

(* resources/test/FE9Arc.bin *)
Definition FE9Arc_bin : bytes :=
  [112;97;99;107;0;2;0;0; 0;0;0;0;0;0;0;40;0;0;0;96;0;0;0;5; 0;0;0;0;0;0;0;56;0;0;0;128;0;0;0;6;
   70;69;57;65;114;99;84;101;115;116;49;46;98;105;110;0; 70;69;57;65;114;99;84;101;115;116;50;46;98;105;110;0]
  ++ repeat 0 24 ++ [1;2;3;4;5] ++ repeat 0 27 ++ [6;7;8;9;10;11] ++ repeat 0 26.
Definition FE9Arc_files : list (bytes * bytes) :=
  [([70;69;57;65;114;99;84;101;115;116;49;46;98;105;110], [1;2;3;4;5]);
   ([70;69;57;65;114;99;84;101;115;116;50;46;98;105;110], [6;7;8;9;10;11])].
Example C15_game_file :
  conforms_pack FE9Arc_bin FE9Arc_files /\ parse Checked FE9Arc_bin = Ok FE9Arc_files /\
  serialize FE9Arc_files = Ok FE9Arc_bin.
Proof.
  split; [apply conforms_packb_sound; vm_compute; reflexivity|]. split; vm_compute; reflexivity.
Qed.
