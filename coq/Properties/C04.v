(* C04 - Cell access is bounds-safe, endian-correct and local.
   Model: Model/BinArchive.v, Model/BinStreams.v (repaired code: checked `address + amount`,
   fix 2a0d67f).  Tied to src/bin_archive.rs, src/bin_streams.rs, src/endian_aware_io.rs by
   `./check C04` (boundary grid up to usize::MAX, both endiannesses, both build profiles). *)
From Coq Require Import List NArith ZArith Bool.
From Mila Require Import Lib.Bytes Lib.Machine Model.BinArchive Model.BinStreams Proofs.BinAccess Proofs.BinAccess2.
Import ListNotations.
Local Open Scope N_scope.

(* ---- a typed read of width w succeeds exactly when [address, address+w) lies inside the data;
        otherwise out-of-bounds; never a panic (for ALL address values, also near 2^64) ---- *)
Theorem C04_read_ok_iff : forall a address (w : nat),
  (exists v, read_uint a address w = Ok v) <-> (address < size a /\ address + N.of_nat w <= size a).
Proof. exact read_uint_ok_iff. Qed.
Theorem C04_read_outside_is_oob : forall a address (w : nat),
  ~ (address < size a /\ address + N.of_nat w <= size a) -> read_uint a address w = Err EOob.
Proof. exact read_uint_outside. Qed.
Theorem C04_read_never_panics : forall a address (w : nat) k, read_uint a address w <> Panic k.
Proof. exact read_uint_never_panics. Qed.

Theorem C04_read_u8_ok_iff : forall a address, (exists v, read_u8 a address = Ok v) <-> address < size a.
Proof. exact read_u8_ok_iff. Qed.
Theorem C04_read_u8_outside_is_oob : forall a address, ~ address < size a -> read_u8 a address = Err EOob.
Proof. exact read_u8_outside. Qed.
Theorem C04_read_u8_never_panics : forall a address k, read_u8 a address <> Panic k.
Proof. exact read_u8_never_panics. Qed.

(* block reads: every address and amount in 0..2^64-1, including address + amount >= 2^64 *)
Theorem C04_read_bytes_ok_iff : forall a address amount, size a < USIZE_MAX1 ->
  ((exists v, read_bytes a address amount = Ok v) <-> (address < size a /\ address + amount <= size a)).
Proof. exact read_bytes_ok_iff. Qed.
Theorem C04_read_bytes_outside_is_oob : forall a address amount,
  ~ (address < size a /\ address + amount <= size a) -> read_bytes a address amount = Err EOob.
Proof. exact read_bytes_outside. Qed.
Theorem C04_read_bytes_never_panics : forall a address amount k, read_bytes a address amount <> Panic k.
Proof. exact read_bytes_never_panics. Qed.
Theorem C04_read_bytes_value : forall a address amount s,
  read_bytes a address amount = Ok s -> sliceN address amount (a_data a) = Some s.
Proof. exact read_bytes_value. Qed.

(* ---- writes ---- *)
Theorem C04_write_ok_iff : forall a address bs,
  (exists a', write_bytes a address bs = Ok a') <-> (address < size a /\ address + lenN bs <= size a).
Proof. exact write_bytes_ok_iff. Qed.
Theorem C04_write_outside_is_oob : forall a address bs,
  ~ (address < size a /\ address + lenN bs <= size a) -> write_bytes a address bs = Err EOob.
Proof. exact write_bytes_outside. Qed.
Theorem C04_write_never_panics : forall a address bs k, write_bytes a address bs <> Panic k.
Proof. exact write_bytes_never_panics. Qed.

(* a successful write changes only the addressed bytes; all five annotation components keep *)
Theorem C04_write_local : forall a address bs a',
  write_bytes a address bs = Ok a' ->
  a_data a' = firstn (N.to_nat address) (a_data a) ++ bs ++ skipn (N.to_nat (address + lenN bs)) (a_data a)
  /\ size a' = size a /\ same_annotations a a'.
Proof. exact write_bytes_local. Qed.

(* typed writes lay the value out in the archive's endianness: they are write_bytes of [enc e w v] *)
Theorem C04_typed_write_is_endian_bytes : forall a address (w : nat) v,
  write_uint a address w v = write_bytes a address (enc (a_endian a) w v).
Proof. exact write_uint_is_write_bytes. Qed.
Theorem C04_write_u8_is_bytes : forall a address v, write_u8 a address v = write_bytes a address [v].
Proof. exact write_u8_is_write_bytes. Qed.

(* ---- the matching read returns the written value unchanged (all bit patterns) ---- *)
Theorem C04_read_after_write : forall a address (w : nat) v a',
  v < 256 ^ N.of_nat w -> write_uint a address w v = Ok a' -> read_uint a' address w = Ok v.
Proof. exact read_after_write_uint. Qed.
Theorem C04_read_after_write_u8 : forall a address v a',
  v < 256 -> write_u8 a address v = Ok a' -> read_u8 a' address = Ok v.
Proof. exact read_after_write_u8. Qed.
Theorem C04_read_after_write_bytes : forall a address bs a',
  size a < USIZE_MAX1 -> write_bytes a address bs = Ok a' -> read_bytes a' address (lenN bs) = Ok bs.
Proof. exact read_after_write_bytes. Qed.
Theorem C04_signed_round_trip : forall w z, 0 < w ->
  (- Z.of_N (2 ^ (w - 1)) <= z < Z.of_N (2 ^ (w - 1)))%Z ->
  to_signed w (of_signed w z) = z /\ of_signed w z < 2 ^ w.
Proof. exact signed_round_trip. Qed.
(* codec: little/big endian byte order, inverse in both directions *)
Theorem C04_codec_dec_enc : forall e (n : nat) v, v < 256 ^ N.of_nat n -> dec e (enc e n v) = v.
Proof. exact dec_enc. Qed.
Theorem C04_codec_enc_dec : forall e bs, wfb bs -> enc e (length bs) (dec e bs) = bs.
Proof. exact enc_dec. Qed.

(* ---- annotation accessors never disturb raw bytes ---- *)
Theorem C04_annotations_leave_bytes : forall a address a',
  (forall v, write_string a address v = Ok a' -> a_data a' = a_data a) /\
  (forall v, write_pointer a address v = Ok a' -> a_data a' = a_data a) /\
  (forall ls, write_labels a address ls = Ok a' -> a_data a' = a_data a) /\
  (forall l, write_label a address l = Ok a' -> a_data a' = a_data a) /\
  (forall s, write_c_string a address s = Ok a' -> a_data a' = a_data a) /\
  (delete_string a address = Ok a' -> a_data a' = a_data a) /\
  (delete_pointer a address = Ok a' -> a_data a' = a_data a) /\
  (delete_labels a address = Ok a' -> a_data a' = a_data a) /\
  (forall i, delete_label a address i = Ok a' -> a_data a' = a_data a).
Proof.
  intros a address a'. repeat split; intros.
  - eapply keep_data_string; eauto.
  - eapply keep_data_pointer; eauto.
  - eapply keep_data_labels; eauto.
  - eapply keep_data_label; eauto.
  - eapply keep_data_c_string; eauto.
  - eapply keep_data_delete_string; eauto.
  - eapply keep_data_delete_pointer; eauto.
  - eapply keep_data_delete_labels; eauto.
  - eapply keep_data_delete_label; eauto.
Qed.
Theorem C04_annotation_reads_bounds : forall a address,
  read_string a address = (if inside a address 4 then Ok (am_get address (a_text a)) else Err EOob) /\
  read_pointer a address = (if inside a address 4 then Ok (am_get address (a_ptrs a)) else Err EOob) /\
  read_labels a address = (if inside a address 4 then Ok (am_get address (a_labels a)) else Err EOob).
Proof. intros; repeat split; [apply read_string_spec | apply read_pointer_spec | apply read_labels_spec]. Qed.

(* ---- streams: the positional call at the cursor; cursor advances by the width iff success ---- *)
Theorem C04_stream_read_refines_positional : forall a pos,
  r_read_u8 a pos = (read_u8 a pos, if is_ok (read_u8 a pos) then pos + 1 else pos) /\
  r_read_u16 a pos = (read_u16 a pos, if is_ok (read_u16 a pos) then pos + 2 else pos) /\
  r_read_u32 a pos = (read_u32 a pos, if is_ok (read_u32 a pos) then pos + 4 else pos) /\
  r_read_f32 a pos = (read_f32 a pos, if is_ok (read_f32 a pos) then pos + 4 else pos) /\
  r_read_string a pos = (read_string a pos, if is_ok (read_string a pos) then pos + 4 else pos) /\
  r_read_pointer a pos = (read_pointer a pos, if is_ok (read_pointer a pos) then pos + 4 else pos) /\
  r_read_c_string a pos = (read_c_string a pos, if is_ok (read_c_string a pos) then pos + 4 else pos).
Proof. intros; repeat split; apply rd_spec. Qed.

Theorem C04_stream_write_refines_positional : forall a pos,
  (forall v, w_write_u8 a pos v = (unit_of (write_u8 a pos v), arch_of (write_u8 a pos v) a, if is_ok (write_u8 a pos v) then pos + 1 else pos)) /\
  (forall v, w_write_u16 a pos v = (unit_of (write_u16 a pos v), arch_of (write_u16 a pos v) a, if is_ok (write_u16 a pos v) then pos + 2 else pos)) /\
  (forall v, w_write_u32 a pos v = (unit_of (write_u32 a pos v), arch_of (write_u32 a pos v) a, if is_ok (write_u32 a pos v) then pos + 4 else pos)) /\
  (forall v, w_write_f32 a pos v = (unit_of (write_f32 a pos v), arch_of (write_f32 a pos v) a, if is_ok (write_f32 a pos v) then pos + 4 else pos)) /\
  (forall v, w_write_string a pos v = (unit_of (write_string a pos v), arch_of (write_string a pos v) a, if is_ok (write_string a pos v) then pos + 4 else pos)) /\
  (forall v, w_write_pointer a pos v = (unit_of (write_pointer a pos v), arch_of (write_pointer a pos v) a, if is_ok (write_pointer a pos v) then pos + 4 else pos)) /\
  (forall s, w_write_c_string a pos s = (unit_of (write_c_string a pos s), arch_of (write_c_string a pos s) a, if is_ok (write_c_string a pos s) then pos + 4 else pos)).
Proof. intros; repeat split; intros; apply wr_spec. Qed.

(* label accesses do not move the cursor *)
Theorem C04_label_access_keeps_cursor : forall a pos,
  snd (r_read_labels a pos) = pos /\ (forall i, snd (r_read_label a pos i) = pos) /\
  (forall l, snd (w_write_label a pos l) = pos).
Proof.
  intros a pos. repeat split; intros; try reflexivity.
  unfold w_write_label. rewrite wr_spec. cbn [snd]. destruct (is_ok _); apply N.add_0_r || reflexivity.
Qed.

(* stream block reads are successive byte reads; when they succeed they equal the positional
   block read and advance by the count; they never panic *)
Theorem C04_stream_read_bytes : forall a pos count bs p,
  size a < USIZE_MAX1 -> pos < USIZE_MAX1 -> count < USIZE_MAX1 -> 1 <= count ->
  r_read_bytes a pos count = (Ok bs, p) -> read_bytes a pos count = Ok bs /\ p = pos + count.
Proof. exact r_read_bytes_positional. Qed.
Theorem C04_stream_read_bytes_never_panics : forall a pos count k p, r_read_bytes a pos count <> (Panic k, p).
Proof. intros. unfold r_read_bytes. apply r_read_bytes_loop_no_panic. Qed.

(* non-vacuity: a big-endian archive of 6 bytes; writing -2 as i16 at 4, reading it back;
   an access near usize::MAX is out of bounds, not a panic *)
Example C04_example :
  let a := allocate_at_end (ba_new BE) 6 in
  (exists a', write_i16 a 4 (-2)%Z = Ok a' /\ a_data a' = [0;0;0;0;255;254] /\ read_i16 a' 4 = Ok (-2)%Z)
  /\ read_bytes a 4 18446744073709551613 = Err EOob
  /\ read_u16 a 5 = Err EOob /\ size a < USIZE_MAX1.
Proof. vm_compute. repeat split. eexists. repeat split. Qed.

(* ==== additions after review r1 (C04-1 stream block operations, C04-2 annotation accept conditions, C04-3 byte order) ==== *)
From Mila Require Import Proofs.BinAccess3.

(* ---- stream block READ, closed form: success with the block and cursor + count exactly when count bytes are left behind
        the cursor; otherwise out of bounds, never a panic, and the cursor stands at the end of the data (the bytes before the
        failing one have been consumed) or where it was if it already stood beyond the end.  All arguments in N. ---- *)
Theorem C04_stream_read_bytes_spec : forall a pos count,
  r_read_bytes a pos count =
    if count <=? size a - pos
    then (Ok (firstn (N.to_nat count) (skipn (N.to_nat pos) (a_data a))), pos + count)
    else (Err EOob, pos + (size a - pos)).
Proof. exact r_read_bytes_spec. Qed.
(* converse of C04_stream_read_bytes: the positional block read at the cursor succeeds -> so does the stream read, same block *)
Theorem C04_stream_read_bytes_complete : forall a pos count bs,
  read_bytes a pos count = Ok bs -> r_read_bytes a pos count = (Ok bs, pos + count).
Proof. exact r_read_bytes_complete. Qed.
Theorem C04_stream_read_bytes_fail : forall a pos count,
  1 <= count -> size a < pos + count -> r_read_bytes a pos count = (Err EOob, N.max pos (size a)).
Proof. exact r_read_bytes_fail. Qed.
(* count = 0 is where stream and positional reads differ: the stream reads nothing and succeeds wherever the cursor stands, the
   positional call validates its address first *)
Theorem C04_stream_read_bytes_zero : forall a pos,
  r_read_bytes a pos 0 = (Ok [], pos) /\ (size a <= pos -> read_bytes a pos 0 = Err EOob).
Proof. exact r_read_bytes_zero. Qed.

(* ---- stream block WRITE (successive byte writes), closed form: everything written and cursor + |bs| exactly when bs fits
        behind the cursor; otherwise out of bounds, never a panic - and the bytes that did fit HAVE been written (a failing
        stream block write is not atomic: "changes nothing" holds for the positional write_bytes, C04_write_outside_is_oob, and for
        each single byte write, not for the block), cursor at the end of the data; annotations untouched in every case ---- *)
Theorem C04_stream_write_bytes_spec : forall bs a pos,
  w_write_bytes a pos bs =
    (if lenN bs <=? size a - pos then Ok tt else Err EOob,
     set_data a (patched (a_data a) pos (firstn (N.to_nat (N.min (lenN bs) (size a - pos))) bs)),
     pos + N.min (lenN bs) (size a - pos)).
Proof. exact w_write_bytes_spec. Qed.
(* for a non-empty block: the stream write is the positional block write at the cursor, both directions, cursor advance = length *)
Theorem C04_stream_write_bytes : forall a pos bs a' p,
  bs <> [] ->
  (w_write_bytes a pos bs = (Ok tt, a', p) <-> write_bytes a pos bs = Ok a' /\ p = pos + lenN bs).
Proof. exact w_write_bytes_ok_iff. Qed.
Theorem C04_stream_write_bytes_fail : forall a pos bs,
  bs <> [] -> size a < pos + lenN bs ->
  w_write_bytes a pos bs =
    (Err EOob, set_data a (patched (a_data a) pos (firstn (N.to_nat (size a - pos)) bs)), N.max pos (size a)).
Proof. exact w_write_bytes_fail. Qed.
Theorem C04_stream_write_bytes_never_panics : forall a pos bs k a' p, w_write_bytes a pos bs <> (Panic k, a', p).
Proof. exact w_write_bytes_never_panics. Qed.
Theorem C04_stream_write_bytes_annotations : forall a pos bs, same_annotations a (snd (fst (w_write_bytes a pos bs))).
Proof. exact w_write_bytes_annotations. Qed.
Theorem C04_stream_write_bytes_empty : forall a pos,
  w_write_bytes a pos [] = (Ok tt, a, pos) /\ (size a <= pos -> write_bytes a pos [] = Err EOob).
Proof. exact w_write_bytes_empty. Qed.
(* signed stream reads: the positional signed read at the cursor *)
Theorem C04_stream_read_signed_refines : forall a pos,
  r_read_i8 a pos = (read_i8 a pos, if is_ok (read_i8 a pos) then pos + 1 else pos) /\
  r_read_i16 a pos = (read_i16 a pos, if is_ok (read_i16 a pos) then pos + 2 else pos) /\
  r_read_i32 a pos = (read_i32 a pos, if is_ok (read_i32 a pos) then pos + 4 else pos).
Proof. exact r_read_signed_refines. Qed.

(* ---- annotation writers / deleters: accepted exactly on a 4-byte cell inside the data ([inside a address 4]:
        address < size /\ address + 4 <= size; C04_inside_true) - labels on any address <= size -, otherwise Err EOob; the
        right-hand sides contain no Panic, so none of them panics; the new state is the old one with one map entry changed ---- *)
Theorem C04_inside_true : forall a address w, inside a address w = true <-> address < size a /\ address + w <= size a.
Proof. exact inside_true. Qed.
Theorem C04_annotation_writes_bounds : forall a address,
  (forall v, write_string a address v =
     if inside a address 4
     then Ok (set_text a (match v with Some s => am_set address s (a_text a) | None => am_del address (a_text a) end)) else Err EOob) /\
  (forall v, write_pointer a address v =
     if inside a address 4
     then Ok (set_ptrs a (match v with Some p => am_set address p (a_ptrs a) | None => am_del address (a_ptrs a) end)) else Err EOob) /\
  (forall s, write_c_string a address s =
     if inside a address 4 then Ok (set_cstrs a (cs_push s address (a_cstrs a))) else Err EOob) /\
  (forall ls, write_labels a address ls =
     if address <=? size a then Ok (set_labels a (am_set address ls (a_labels a))) else Err EOob) /\
  (forall l, write_label a address l =
     if address <=? size a
     then Ok (set_labels a (am_set address (match am_get address (a_labels a) with Some b => b ++ [l] | None => [l] end) (a_labels a)))
     else Err EOob).
Proof.
  intros a address. split; [intros; apply write_string_spec|]. split; [intros; apply write_pointer_spec|].
  split; [intros; apply write_c_string_spec|]. split; [intros; apply write_labels_spec | intros; apply write_label_spec].
Qed.
Theorem C04_annotation_deletes_bounds : forall a address,
  delete_string a address = (if inside a address 4 then Ok (set_text a (am_del address (a_text a))) else Err EOob) /\
  delete_pointer a address = (if inside a address 4 then Ok (set_ptrs a (am_del address (a_ptrs a))) else Err EOob) /\
  delete_labels a address = (if inside a address 4 then Ok (set_labels a (am_del address (a_labels a))) else Err EOob) /\
  (forall index, delete_label a address index =
     if inside a address 4
     then match am_get address (a_labels a) with
          | Some bucket => if index <? N.of_nat (length bucket)
                           then Ok (set_labels a (am_set address (remove_nth (N.to_nat index) bucket) (a_labels a)))
                           else Err ELabelIndex
          | None => Ok a
          end
     else Err EOob).
Proof.
  intros a address. split; [apply delete_string_spec|]. split; [apply delete_pointer_spec|]. split; [apply delete_labels_spec|].
  intros; apply delete_label_spec.
Qed.

(* ---- byte order pinned against an independent description: byte i of the w-byte form of v is the base-256 digit number
        i (little endian: least significant byte at the lowest address) or w-1-i (big endian: most significant byte first);
        swapping LE and BE would falsify these while keeping the codec inverse lemmas true ---- *)
Theorem C04_endian_digits : forall e (w : nat) v (i : nat), (i < w)%nat ->
  nth i (enc e w v) 0 = (v / 256 ^ N.of_nat (match e with LE => i | BE => w - 1 - i end)) mod 256.
Proof. exact enc_digits. Qed.
Theorem C04_endian_be_is_reversed_le : forall (w : nat) v, enc BE w v = rev (enc LE w v).
Proof. exact enc_be_is_rev_le. Qed.
Theorem C04_endian_u32_bytes : forall v,
  enc LE 4 v = [v mod 256; v / 256 mod 256; v / 65536 mod 256; v / 16777216 mod 256] /\
  enc BE 4 v = [v / 16777216 mod 256; v / 65536 mod 256; v / 256 mod 256; v mod 256].
Proof. exact enc_u32_bytes. Qed.
Theorem C04_endian_u16_bytes : forall v,
  enc LE 2 v = [v mod 256; v / 256 mod 256] /\ enc BE 2 v = [v / 256 mod 256; v mod 256].
Proof. exact enc_u16_bytes. Qed.

(* non-vacuity: 4 data bytes; a 6-byte stream write from cursor 2 fails out of bounds AFTER writing the two bytes that fit;
   0x01020304 big-endian is 1 2 3 4, little-endian 4 3 2 1 *)
Example C04_example_stream_block :
  w_write_bytes (allocate_at_end (ba_new LE) 4) 2 [9; 8; 7; 6; 5; 4] =
    (Err EOob, set_data (allocate_at_end (ba_new LE) 4) [0; 0; 9; 8], 4)
  /\ r_read_bytes (allocate_at_end (ba_new LE) 4) 1 5 = (Err EOob, 4)
  /\ r_read_bytes (allocate_at_end (ba_new LE) 4) 7 0 = (Ok [], 7)
  /\ enc BE 4 16909060 = [1; 2; 3; 4] /\ enc LE 4 16909060 = [4; 3; 2; 1].
Proof. vm_compute. repeat split. Qed.

(* signed typed accessors (review r1, C04-3): the matching signed read returns the written value, for every value of the type;
   signed stream writes are the positional signed write at the cursor *)
Theorem C04_signed_read_after_write : forall a address a',
  (forall z, (-128 <= z < 128)%Z -> write_i8 a address z = Ok a' -> read_i8 a' address = Ok z) /\
  (forall z, (-32768 <= z < 32768)%Z -> write_i16 a address z = Ok a' -> read_i16 a' address = Ok z) /\
  (forall z, (-2147483648 <= z < 2147483648)%Z -> write_i32 a address z = Ok a' -> read_i32 a' address = Ok z).
Proof. exact signed_read_after_write. Qed.
Theorem C04_stream_write_signed_refines : forall a pos z,
  w_write_i8 a pos z = (unit_of (write_i8 a pos z), arch_of (write_i8 a pos z) a, if is_ok (write_i8 a pos z) then pos + 1 else pos) /\
  w_write_i16 a pos z = (unit_of (write_i16 a pos z), arch_of (write_i16 a pos z) a, if is_ok (write_i16 a pos z) then pos + 2 else pos) /\
  w_write_i32 a pos z = (unit_of (write_i32 a pos z), arch_of (write_i32 a pos z) a, if is_ok (write_i32 a pos z) then pos + 4 else pos).
Proof. exact w_write_signed_refines. Qed.
