(* C01 - Bin archive content survives serialize -> parse, for any conforming layout.
   Models: Model/BinFormat.v (serialize, from_bytes; repaired code b2dd42f, 0360b89, 6452b58).
   The format relation [conforms e f c] (Proofs/BinFormatSpec.v) is written from the format
   description, independently of both functions: header with exact totals, data region, pointer
   table = ANY permutation of the pointer and string cells, a string cell holding SOME value
   beyond the data at which its NUL-terminated string sits (anywhere: shared, duplicated,
   between junk), label table = any list of (address, offset) entries whose names give, per
   address, the bucket in order (entries of different addresses interleave freely).
   Tied to src/bin_archive.rs by `./check C01`. *)
From Coq Require Import List NArith ZArith Bool Permutation.
From Mila Require Import Lib.Bytes Lib.Machine Model.BinArchive Model.BinFormat Proofs.AMapLemmas Proofs.BinFormatSpec Proofs.BinParserCorrect
  Proofs.BinSerializeConformsBase Proofs.BinSerializeConformsPhases Proofs.BinSerializeConforms Proofs.BinRoundTrip Proofs.BinTotal.
Import ListNotations.
Local Open Scope N_scope.

(* the parser recovers the content from EVERY conforming file, whatever the order of its tables
   and wherever its strings sit *)
Theorem C01_parser_correct : forall e f c,
  conforms e f c ->
  exists a, from_bytes e f = Ok a /\ a_data a = c_data c /\ a_endian a = e /\ a_cstrs a = [] /\
    (forall x, am_get x (a_ptrs a) = am_get x (c_ptrs c)) /\
    (forall x, am_get x (a_text a) = am_get x (c_text c)) /\
    (forall x, am_get x (a_labels a) = am_get x (c_labels c)) /\
    NoDup (am_keys (a_ptrs a)) /\ NoDup (am_keys (a_text a)) /\ NoDup (am_keys (a_labels a)).
Proof. exact parser_correct. Qed.

(* [kf] below is the SORT KEY of label names (Model/BinFormat.v name_key): the library orders the label table of a
   big-endian archive by the names as Rust Strings (Unicode scalar order of the DECODED names, bin_archive.rs
   labels.sort_by), the model by the keys kf assigns to the encoded names; serialize_k kf is the library's function for
   kf = "scalars of the decoded name" (that is what ./check C01 passes to the extracted model, from the library's own
   decoder).  Every theorem of this file holds for EVERY key function - no injectivity or any other property of kf is
   needed: the format relation does not fix the order of the label table and the addresses of a label map are distinct. *)

(* The 32-bit sizes of the format (fix 524d15f, finding F25): BinArchive::serialize computes the size of the image and rejects
   it - an error, in either arithmetic profile, before anything is truncated - when it exceeds u32::MAX; so SUCCESS of
   serialize is the size condition, and the theorems below about an image f are stated for every successful serialize with no
   a-priori bound.  [image_size kf a] is the number the guard compares with 2^32 - 1 (the exact length of the image);
   [fits32 a] (a simple closed upper bound of it < 2^32, Proofs/BinSerializeConforms.v) remains as the SUFFICIENT condition
   for success where a theorem promises that an image exists. *)
Theorem C01_serialize_ok_iff_fits : forall kf m a, wf_archive a ->
  ((exists f, serialize_k kf m a = Ok f) <-> image_size kf a < 2 ^ 32).
Proof. exact serialize_ok_iff. Qed.
Theorem C01_serialize_rejects_large : forall kf m a, wf_archive a ->
  2 ^ 32 <= image_size kf a -> serialize_k kf m a = Err EOther.
Proof. exact serialize_rejects_large. Qed.
(* what is accepted has exactly that length; the closed bound of fits32 dominates it *)
Theorem C01_serialize_ok_length : forall kf m a f, wf_archive a -> serialize_k kf m a = Ok f ->
  lenN f = image_size kf a /\ lenN f < 2 ^ 32.
Proof. exact serialize_ok_length. Qed.
Theorem C01_image_size_bound : forall kf a, wf_archive a -> size a < 2 ^ 32 -> image_size kf a <= ser_bound a.
Proof. exact image_size_bound. Qed.
(* never a panic, on ANY archive (no well-formedness, no size hypothesis), in either profile: the u32 addition in the header -
   the one place that panicked in checked builds (review 2, V1: size 2^32 - 4 with a pending c-string) - sits behind the guard *)
Theorem C01_serialize_never_panics : forall kf m a p, serialize_k kf m a <> Panic p.
Proof. exact serialize_no_panic_all. Qed.

(* every successful serialize of an archive of the property's domain conforms to the format for the
   PUBLISHED content: the archive's own strings, pointers and labels, the data with every annotated cell
   filled in followed by the padded c-string pool, and one pointer into the pool per pending c-string.
   [wf_archive] (Proofs/BinSerializeConforms.v) is the property's quantifier: at most one annotation per cell,
   cells inside the data and not overlapping, targets and labels <= size, NUL-free well-formed strings,
   non-empty buckets; no alignment of the data length. *)
Theorem C01_serialize_ok_conforms : forall kf m a f, wf_archive a -> serialize_k kf m a = Ok f ->
  wfb f /\ conforms (a_endian a) f (published kf a).
Proof. exact serialize_ok_conforms. Qed.
(* ... and serialize does succeed when the closed bound fits32 holds *)
Theorem C01_serialize_conforms : forall kf m a, wf_archive a -> fits32 a ->
  exists f, serialize_k kf m a = Ok f /\ wfb f /\ conforms (a_endian a) f (published kf a).
Proof. exact serialize_conforms. Qed.

(* the serialized image is itself well-formed: header totals exact (no field truncated), every table entry and label name
   inside the file, tables word-aligned whenever the data is (c-string pool included) *)
Theorem C01_image_wellformed : forall kf m a f, wf_archive a -> serialize_k kf m a = Ok f ->
  let d := c_data (published kf a) in let e := a_endian a in
  exists ptab ltab txt,
    f = enc e 4 (lenN f) ++ enc e 4 (lenN d) ++ enc e 4 (lenL ptab) ++ enc e 4 (lenL ltab) ++ zeros 16
        ++ d ++ u32s e ptab ++ u32s e (flat ltab) ++ txt /\
    lenN f < U32 /\ lenN d = size a + lenN (pool_bytes a) /\
    Forall (fun c => c + 4 <= lenN d) ptab /\
    Forall (fun p => fst p <= lenN d /\ snd p < lenN txt) ltab /\
    (size a mod 4 = 0 -> (32 + lenN d) mod 4 = 0 /\ (32 + lenN d + 4 * lenL ptab) mod 4 = 0).
Proof. exact serialize_image_wellformed. Qed.

(* the round trip of EVERY successful serialize: same size (plus the pool the format appends; nothing without c-strings), same
   raw bytes outside annotated cells, same strings, pointers, labels in per-address order, every pending c-string
   readable at its cell - in either endianness, strings and c-strings mixed *)
Theorem C01_round_trip_ok : forall kf m a f,
  wf_archive a -> serialize_k kf m a = Ok f ->
  exists a',
    wfb f /\ from_bytes (a_endian a) f = Ok a' /\
    a_endian a' = a_endian a /\ a_cstrs a' = [] /\
    size a' = size a + lenN (pool_bytes a) /\ lenN (pool_bytes a) mod 4 = 0 /\ (a_cstrs a = [] -> size a' = size a) /\
    (forall i, (i < N.to_nat (size a))%nat -> outside (cells a) i -> nth_error (a_data a') i = nth_error (a_data a) i) /\
    (forall x, am_get x (a_text a') = am_get x (a_text a)) /\
    (forall x, ~ In x (cs_cells a) -> am_get x (a_ptrs a') = am_get x (a_ptrs a)) /\
    (forall x, am_get x (a_labels a') = am_get x (a_labels a)) /\
    (forall s cs cell, In (s, cs) (a_cstrs a) -> In cell cs -> read_c_string a' cell = Ok (Some s)).
Proof. exact round_trip_ok. Qed.
(* with the closed bound the image exists, so the round trip happens *)
Theorem C01_round_trip : forall kf m a,
  wf_archive a -> fits32 a ->
  exists f a',
    serialize_k kf m a = Ok f /\ wfb f /\ from_bytes (a_endian a) f = Ok a' /\
    a_endian a' = a_endian a /\ a_cstrs a' = [] /\
    size a' = size a + lenN (pool_bytes a) /\ lenN (pool_bytes a) mod 4 = 0 /\ (a_cstrs a = [] -> size a' = size a) /\
    (forall i, (i < N.to_nat (size a))%nat -> outside (cells a) i -> nth_error (a_data a') i = nth_error (a_data a) i) /\
    (forall x, am_get x (a_text a') = am_get x (a_text a)) /\
    (forall x, ~ In x (cs_cells a) -> am_get x (a_ptrs a') = am_get x (a_ptrs a)) /\
    (forall x, am_get x (a_labels a') = am_get x (a_labels a)) /\
    (forall s cs cell, In (s, cs) (a_cstrs a) -> In cell cs -> read_c_string a' cell = Ok (Some s)).
Proof. exact round_trip. Qed.

(* non-vacuity of the domain: a big-endian archive, data length 14 (unaligned), string at 0, pending c-string at 4,
   pointer 8 -> 2, two labels on the end address *)
Example C01_example_domain : wf_archive ex_archive /\ fits32 ex_archive.
Proof. exact ex_archive_wf. Qed.

(* non-vacuity: a big-endian file, data length 8, the string of cell 0 sits AFTER junk in the text
   section, pointer table in an order different from the content's listing, label entries of two addresses interleaved, two labels on
   the end address sharing one stored name with another address *)
Definition ex_file : bytes :=
  [0;0;0;79; 0;0;0;8; 0;0;0;2; 0;0;0;3; 0;0;0;0; 0;0;0;0; 0;0;0;0; 0;0;0;0;
   0;0;0;45; 0;0;0;8;
   0;0;0;0; 0;0;0;4;
   0;0;0;8; 0;0;0;0;  0;0;0;0; 0;0;0;2;  0;0;0;8; 0;0;0;2;
   69;0; 65;0; 7; 83;0].
Definition ex_content : content :=
  {| c_data := [0;0;0;45; 0;0;0;8]; c_ptrs := [(4, 8)]; c_text := [(0, [83])];
     c_labels := [(8, [[69]; [65]]); (0, [[65]])] |}.

Example C01_example_conforms : conforms BE ex_file ex_content.
Proof.
  exists (zeros 16), [0; 4], [(8, 0); (0, 2); (8, 2)], [69;0; 65;0; 7; 83;0], [(8, [69]); (0, [65]); (8, [65])].
  cbn zeta. split; [vm_compute; reflexivity|]. split; [reflexivity|]. split; [vm_compute; reflexivity|].
  split; [repeat constructor|]. split; [repeat constructor; vm_compute; reflexivity|].
  split. { cbn. repeat constructor; cbn; intuition discriminate. }
  split. { cbn. apply perm_swap. }
  split. { intros cell dest [H|[]]. inversion H; subst. vm_compute. split; [reflexivity | discriminate]. }
  split. { intros cell s [H|[]]. inversion H; subst. exists 45. vm_compute. repeat split. }
  split. { repeat constructor. }
  split. { repeat constructor; vm_compute; discriminate. }
  split. { cbn. repeat constructor; cbn; intuition discriminate. }
  intros addr. unfold names_at. cbn [filter map fst snd ex_content c_labels am_get].
  destruct (N.eqb_spec 8 addr) as [E8|E8]; [subst addr; cbn; split; [reflexivity | discriminate]|].
  destruct (N.eqb_spec 0 addr) as [E0|E0]; [subst addr; cbn; split; [reflexivity | discriminate]|].
  destruct (N.eqb_spec addr 8); [congruence|]. destruct (N.eqb_spec addr 0); [congruence|]. cbn. split; [reflexivity | discriminate].
Qed.

Example C01_example_parsed :
  exists a, from_bytes BE ex_file = Ok a /\ a_text a = [(0, [83])] /\ a_ptrs a = [(4, 8)] /\
            a_labels a = [(8, [[69]; [65]]); (0, [[65]])].
Proof. vm_compute. eexists. repeat split. Qed.

(* ---- "yields an archive of the same size ... also when strings and c-strings are mixed" (review r1, C01-1) ----
   The literal reading - the parsed archive has exactly the size of the serialized one - is FALSE of the format (hence of
   code and model alike) as soon as a c-string is pending: serialize appends the pool of pending c-strings (each NUL-terminated,
   the whole padded to 4) to the data region and points the cells into it, so the pool IS data of the parsed archive.
   The reading that holds, and that C01_round_trip states (DESIGN 1.6): size a' = size a + |padded pool|, the pool length is a
   multiple of 4, and the sizes are EQUAL whenever no c-string is pending. *)
From Mila Require Import Proofs.BinRoundTripSize.
Definition C01_same_size_full : Prop :=
  forall kf m a f a', wf_archive a -> serialize_k kf m a = Ok f -> from_bytes (a_endian a) f = Ok a' -> size a' = size a.
(* ex_archive: 14 data bytes and the c-string "cs" pending at cell 4; the parsed archive has 14 + |"cs\0" padded to 4| = 18 bytes *)
Theorem C01_same_size_refuted :
  exists kf m a f a', wf_archive a /\ fits32 a /\ serialize_k kf m a = Ok f /\ from_bytes (a_endian a) f = Ok a' /\
                      size a = 14 /\ size a' = 18.
Proof. exact same_size_refuted. Qed.
Theorem C01_same_size_partial : forall kf m a f a',
  wf_archive a -> serialize_k kf m a = Ok f -> from_bytes (a_endian a) f = Ok a' ->
  size a' = size a + lenN (pool_bytes a) /\ lenN (pool_bytes a) mod 4 = 0 /\ (a_cstrs a = [] -> size a' = size a).
Proof. exact round_trip_size. Qed.

(* ---- empty label buckets (review r1, C01-2) ----
   [wf_archive] demands non-empty buckets (wf_labels), yet the API builds empty ones: write_labels(a, vec![]) and delete_label
   of the last label leave `labels[a] = []`.  The format stores (address, name) ENTRIES, not buckets, so an empty bucket has no
   image: read_labels answers Some [] before the round trip and None after it - in the code and in the model alike (Example
   below; `./check C01` stream empty-buckets).  This is the right reading of "the same labels in the same per-address order": the
   labels of the archive are the (address, name) pairs that all_labels() lists, and these are the same before and after (here:
   none); whether a bucket without labels exists is not content.  For archives with such buckets C01_round_trip therefore applies
   to the archive with the empty buckets dropped; that the two serialize alike is checked by leg K/O, not proved. *)
Example C01_example_empty_bucket :
  (a <- write_labels (allocate_at_end (ba_new LE) 8) 0 [] ;;
   f <- serialize Checked a ;; a' <- from_bytes LE f ;;
   before <- read_labels a 0 ;; after <- read_labels a' 0 ;;
   Ok (before, after, all_labels a, all_labels a', size a'))
  = Ok (Some [], None, [], [], 8)
  /\ (a0 <- write_label (allocate_at_end (ba_new BE) 8) 4 [76] ;; a <- delete_label a0 4 0 ;;
      f <- serialize Checked a ;; a' <- from_bytes BE f ;;
      before <- read_labels a 4 ;; after <- read_labels a' 4 ;;
      Ok (before, after, all_labels a, all_labels a'))
     = Ok (Some [], None, [], []).
Proof. vm_compute. split; reflexivity. Qed.
Example C01_example_empty_bucket_not_wf :
  ~ wf_archive {| a_data := zeros 8; a_text := []; a_ptrs := []; a_labels := [(0, [])]; a_cstrs := []; a_endian := LE |}.
Proof. intros H. destruct (wf_labels _ H 0 [] (or_introl eq_refl)) as (_ & Hne & _). congruence. Qed.

(* ---- the 32-bit guard at its boundary, for sizes no test can build (a 4 GiB image does not fit the harness protocol): symbolic
   in the data length, both profiles, both endiannesses.  An archive without annotations is written as header ++ data exactly
   when size + 32 <= 2^32 - 1; the largest accepted one has an image of 2^32 - 1 bytes whose size field says so, the next
   size is rejected (before fix 524d15f it was written with size field 0). ---- *)
From Mila Require Import Proofs.BinSerializeBoundary.
Theorem C01_serialize_boundary : forall kf m a,
  a_text a = [] -> a_ptrs a = [] -> a_labels a = [] -> a_cstrs a = [] ->
  serialize_k kf m a =
    if size a + 32 <=? 4294967295
    then Ok (enc (a_endian a) 4 (size a + 32) ++ enc (a_endian a) 4 (size a) ++ enc (a_endian a) 4 0 ++ enc (a_endian a) 4 0
             ++ zeros 16 ++ a_data a)
    else Err EOther.
Proof. exact serialize_plain_boundary. Qed.
Theorem C01_serialize_largest_accepted : forall kf m a,
  a_text a = [] -> a_ptrs a = [] -> a_labels a = [] -> a_cstrs a = [] -> size a = 4294967263 ->
  exists f, serialize_k kf m a = Ok f /\ lenN f = 4294967295 /\ u32_at (a_endian a) f 0 = Some 4294967295.
Proof. exact serialize_plain_largest. Qed.
Theorem C01_serialize_smallest_rejected : forall kf m a,
  a_text a = [] -> a_ptrs a = [] -> a_labels a = [] -> a_cstrs a = [] -> size a = 4294967264 ->
  serialize_k kf m a = Err EOther.
Proof. exact serialize_plain_smallest_rejected. Qed.
(* small instance of the same equation, computed *)
Example C01_example_boundary_small :
  serialize_k key_bytes Checked (allocate_at_end (ba_new BE) 2) = Ok [0;0;0;34; 0;0;0;2; 0;0;0;0; 0;0;0;0; 0;0;0;0;0;0;0;0;0;0;0;0;0;0;0;0; 0;0].
Proof. vm_compute. reflexivity. Qed.
