(* C01 - Bin archive content survives serialize -> parse, for any conforming layout.
   Models: Model/BinFormat.v (serialize, from_bytes; repaired code b2dd42f, 0360b89, 6452b58).
   The format relation [conforms e f c] (Proofs/BinFormatSpec.v) is written from the format
   description, independently of both functions: header with exact totals, data region, pointer
   table = ANY permutation of the pointer and string cells, a string cell holding SOME value
   beyond the data at which its NUL-terminated string sits (anywhere: shared, duplicated,
   between junk), label table = any list of (address, offset) entries whose names give, per
   address, the bucket in order (entries of different addresses interleave freely).
   Tied to src/bin_archive.rs by `./check C01`. *)
From Coq Require Import List NArith ZArith Bool Permutation.
From Mila Require Import Lib.Bytes Lib.Machine Model.BinArchive Model.BinFormat Proofs.AMapLemmas Proofs.BinFormatSpec Proofs.BinParserCorrect.
Import ListNotations.
Local Open Scope N_scope.

(* the parser recovers the content from EVERY conforming file, whatever the order of its tables
   and wherever its strings sit *)
Theorem C01_parser_correct : forall e f c,
  conforms e f c ->
  exists a, from_bytes e f = Ok a /\ a_data a = c_data c /\ a_endian a = e /\ a_cstrs a = [] /\
    (forall x, am_get x (a_ptrs a) = am_get x (c_ptrs c)) /\
    (forall x, am_get x (a_text a) = am_get x (c_text c)) /\
    (forall x, am_get x (a_labels a) = am_get x (c_labels c)) /\
    NoDup (am_keys (a_ptrs a)) /\ NoDup (am_keys (a_text a)) /\ NoDup (am_keys (a_labels a)).
Proof. exact parser_correct. Qed.

(* non-vacuity: a big-endian file, data length 8, the string of cell 0 sits AFTER junk in the text
   section, pointer table in an order different from the content's listing, label entries of two addresses interleaved, two labels on
   the end address sharing one stored name with another address *)
Definition ex_file : bytes :=
  [0;0;0;79; 0;0;0;8; 0;0;0;2; 0;0;0;3; 0;0;0;0; 0;0;0;0; 0;0;0;0; 0;0;0;0;
   0;0;0;45; 0;0;0;8;
   0;0;0;0; 0;0;0;4;
   0;0;0;8; 0;0;0;0;  0;0;0;0; 0;0;0;2;  0;0;0;8; 0;0;0;2;
   69;0; 65;0; 7; 83;0].
Definition ex_content : content :=
  {| c_data := [0;0;0;45; 0;0;0;8]; c_ptrs := [(4, 8)]; c_text := [(0, [83])];
     c_labels := [(8, [[69]; [65]]); (0, [[65]])] |}.

Example C01_example_conforms : conforms BE ex_file ex_content.
Proof.
  exists (zeros 16), [0; 4], [(8, 0); (0, 2); (8, 2)], [69;0; 65;0; 7; 83;0], [(8, [69]); (0, [65]); (8, [65])].
  cbn zeta. split; [vm_compute; reflexivity|]. split; [reflexivity|]. split; [vm_compute; reflexivity|].
  split; [repeat constructor|]. split; [repeat constructor; vm_compute; reflexivity|].
  split. { cbn. repeat constructor; cbn; intuition discriminate. }
  split. { cbn. apply perm_swap. }
  split. { intros cell dest [H|[]]. inversion H; subst. vm_compute. split; [reflexivity | discriminate]. }
  split. { intros cell s [H|[]]. inversion H; subst. exists 45. vm_compute. repeat split. }
  split. { repeat constructor. }
  split. { repeat constructor; vm_compute; discriminate. }
  split. { cbn. repeat constructor; cbn; intuition discriminate. }
  intros addr. unfold names_at. cbn [filter map fst snd ex_content c_labels am_get].
  destruct (N.eqb_spec 8 addr) as [E8|E8]; [subst addr; cbn; split; [reflexivity | discriminate]|].
  destruct (N.eqb_spec 0 addr) as [E0|E0]; [subst addr; cbn; split; [reflexivity | discriminate]|].
  destruct (N.eqb_spec addr 8); [congruence|]. destruct (N.eqb_spec addr 0); [congruence|]. cbn. split; [reflexivity | discriminate].
Qed.

Example C01_example_parsed :
  exists a, from_bytes BE ex_file = Ok a /\ a_text a = [(0, [83])] /\ a_ptrs a = [(4, 8)] /\
            a_labels a = [(8, [[69]; [65]]); (0, [[65]])].
Proof. vm_compute. eexists. repeat split. Qed.
