(* C03 - Allocate / deallocate / truncate relocate every annotation consistently.
   Model: Model/BinArchive.v (repaired code: c-strings relocated 47b4bc6, truncate d331668,
   checked end address 2a0d67f).  kappa relocates strings, pointer cells and pending c-string
   cells; tau relocates labels and pointer targets (inclusive at the insertion point iff ge).
   Tied to src/bin_archive.rs, src/bin_streams.rs by `./check C03`. *)
From Coq Require Import List NArith ZArith Bool.
From Mila Require Import Lib.Bytes Lib.Machine Model.BinArchive Model.BinStreams Proofs.AMapLemmas Proofs.BinAccess Proofs.BinRelocate Proofs.BinInvariant Proofs.BinKeysInvariant.
Import ListNotations.
Local Open Scope N_scope.

(* ---- insert: accepted iff in range, aligned and REPRESENTABLE; otherwise rejected, archive unchanged ----
   [moved addr ge t]: the label address / pointer target t is moved by an insertion at addr (addr < t, or addr = t when ge).
   Representable (code: fix 0edd128, finding F24): the new size is a valid vector length (<= isize::MAX = 2^63 - 1) and every
   pointer target that moves stays a usize (t + n < 2^64; write_pointer accepts any usize as target, so this is a real
   condition on API-reachable archives).  Above the size bound the request is REJECTED (Err EOob), it does not panic. *)
Theorem C03_allocate_ok_iff : forall a addr n ge,
  (exists a', allocate a addr n ge = Ok a') <->
  (addr <= size a /\ addr mod 4 = 0 /\ n mod 4 = 0
   /\ size a + n <= 2 ^ 63 - 1
   /\ (forall c t, In (c, t) (a_ptrs a) -> moved addr ge t -> t + n < 2 ^ 64)).
Proof. exact allocate_ok_iff. Qed.
Theorem C03_allocate_rejected : forall a addr n ge,
  ~ (addr <= size a /\ addr mod 4 = 0 /\ n mod 4 = 0
     /\ size a + n <= 2 ^ 63 - 1
     /\ (forall c t, In (c, t) (a_ptrs a) -> moved addr ge t -> t + n < 2 ^ 64)) ->
  allocate a addr n ge = Err EOob \/ allocate a addr n ge = Err EUnaligned.
Proof. exact allocate_rejected. Qed.
Theorem C03_allocate_never_panics : forall a addr n ge k, allocate a addr n ge <> Panic k.
Proof. exact allocate_never_panics. Qed.

(* "rejected and the archive unchanged" as a statement that can fail: [allocate_m m] (Model/BinArchive.v) is allocate in the
   statement order of the code - checks, splice of the data, then the relocation of the maps with EVERY usize addition (cells,
   label addresses, c-string cells, pointer targets) as [add_w 64] in profile m (Checked: overflow panics, Wrapping: wraps) - and
   returns the outcome TOGETHER WITH the archive `&mut self` is left with (after a panic in the relocation: the half-relocated
   one).  For both profiles it equals the functional [allocate]: no panic, no wrapped value, and whenever the result is not Ok
   the archive is the one passed in.  Hypothesis [keys_le_size a]: every annotation key is <= size a - true after EVERY history
   of API calls, aligned or not, accepted or rejected (C03_keys_invariant).  (Without the representability check the statement
   is false: BinRelocate.allocate_apply_unchecked_panics is the input of finding F24.)
   deallocate / truncate: every `?` precedes the first mutation in the code and the remaining arithmetic cannot fail
   (C03_deallocate_subtractions_exact), so there "unchanged" is carried by the outcome type and tied to the code by leg K,
   which compares the full state after every rejected operation. *)
Theorem C03_keys_invariant : forall e ops, keys_le_size (fold_left bstep ops (ba_new e)).
Proof. exact history_keys_invariant. Qed.
Theorem C03_allocate_steps_agree : forall m a addr n ge,
  keys_le_size a ->
  allocate_m m a addr n ge =
    match allocate a addr n ge with Ok a' => (Ok tt, a') | Err e => (Err e, a) | Panic k => (Panic k, a) end.
Proof. exact allocate_m_is_allocate. Qed.
Theorem C03_allocate_failure_unchanged : forall m a addr n ge,
  keys_le_size a -> fst (allocate_m m a addr n ge) <> Ok tt -> snd (allocate_m m a addr n ge) = a.
Proof. exact allocate_m_failure_unchanged. Qed.
Theorem C03_allocate_steps_never_panic : forall m a addr n ge k, keys_le_size a -> fst (allocate_m m a addr n ge) <> Panic k.
Proof. exact allocate_m_never_panics. Qed.
(* the relocated targets are usize values again; on archives whose cells lie inside the data (C03_invariant) so are all keys *)
Theorem C03_allocate_targets_usize : forall a addr n ge a',
  allocate a addr n ge = Ok a' ->
  (forall c t, In (c, t) (a_ptrs a) -> t < 2 ^ 64) -> forall c t, In (c, t) (a_ptrs a') -> t < 2 ^ 64.
Proof. exact allocate_targets_usize. Qed.
Theorem C03_allocate_keys_usize : forall a addr n ge a',
  wf_cells a -> allocate a addr n ge = Ok a' ->
  size a' <= 2 ^ 63 - 1 /\
  Forall (fun k => k + 4 <= 2 ^ 63 - 1) (am_keys (a_text a')) /\ Forall (fun k => k + 4 <= 2 ^ 63 - 1) (am_keys (a_ptrs a')) /\
  Forall (fun k => k <= 2 ^ 63 - 1) (am_keys (a_labels a')) /\
  Forall (fun q => Forall (fun k => k + 4 <= 2 ^ 63 - 1) (snd q)) (a_cstrs a').
Proof. exact allocate_keys_usize. Qed.

(* exact relocation, losing and inventing nothing: every key of the new maps is the image of an old key *)
Theorem C03_allocate_spec : forall a addr n ge a',
  allocate a addr n ge = Ok a' ->
  a_data a' = firstn (N.to_nat addr) (a_data a) ++ zeros (N.to_nat n) ++ skipn (N.to_nat addr) (a_data a)
  /\ size a' = size a + n
  /\ (forall x, am_get (kappa addr n x) (a_text a') = am_get x (a_text a))
  /\ am_keys (a_text a') = map (kappa addr n) (am_keys (a_text a))
  /\ (forall x, am_get (kappa addr n x) (a_ptrs a') = option_map (tau addr n ge) (am_get x (a_ptrs a)))
  /\ am_keys (a_ptrs a') = map (kappa addr n) (am_keys (a_ptrs a))
  /\ (forall x, am_get (tau addr n ge x) (a_labels a') = am_get x (a_labels a))
  /\ am_keys (a_labels a') = map (tau addr n ge) (am_keys (a_labels a))
  /\ a_cstrs a' = map (fun q => (fst q, map (kappa addr n) (snd q))) (a_cstrs a)
  /\ a_endian a' = a_endian a.
Proof. exact allocate_spec. Qed.

(* ---- remove ---- *)
Theorem C03_deallocate_ok_iff : forall a addr n ge,
  addr < USIZE_MAX1 -> n < USIZE_MAX1 -> size a < USIZE_MAX1 ->
  ((exists a', deallocate a addr n ge = Ok a') <-> (addr < size a /\ addr + n <= size a /\ addr mod 4 = 0 /\ n mod 4 = 0)).
Proof. exact deallocate_ok_iff. Qed.
Theorem C03_deallocate_rejected : forall a addr n ge,
  ~ (addr < size a /\ addr + n <= size a /\ addr mod 4 = 0 /\ n mod 4 = 0) ->
  deallocate a addr n ge = Err EOob \/ deallocate a addr n ge = Err EUnaligned.
Proof. exact deallocate_rejected. Qed.
Theorem C03_deallocate_never_panics : forall a addr n ge k, deallocate a addr n ge <> Panic k.
Proof. exact deallocate_never_panics. Qed.
(* the usize subtractions `destination - count` / `pointer - count` (written as truncated N subtraction in the model) are only
   executed on survivors of the filters that lie at or behind addr, hence on values >= addr + n: exact in both profiles *)
Theorem C03_deallocate_subtractions_exact : forall m a addr n ge,
  (forall c t, In (c, t) (filter_pointers (a_ptrs a) addr n) ->
     (moves t addr ge = true -> n <= t /\ sub_w 64 m t n = Ok (t - n)) /\ (addr <= c -> n <= c /\ sub_w 64 m c n = Ok (c - n)))
  /\ (forall k, In k (am_keys (filter_text_or_labels (a_text a) addr n)) -> addr <= k -> n <= k /\ sub_w 64 m k n = Ok (k - n))
  /\ (forall k, In k (am_keys (filter_text_or_labels (a_labels a) addr n)) -> addr <= k -> n <= k /\ sub_w 64 m k n = Ok (k - n))
  /\ (forall s cells k, In (s, cells) (filter_cstrs (fun k => negb (in_range addr n k)) (a_cstrs a)) -> In k cells -> addr <= k ->
        n <= k /\ sub_w 64 m k n = Ok (k - n)).
Proof.
  intros m a addr n ge. split; [intros c t H; split; [exact (deallocate_target_sub_exact m _ addr n ge c t H) | exact (deallocate_cell_sub_exact m _ addr n c t H)]|].
  split; [exact (deallocate_key_sub_exact m (a_text a) addr n)|]. split; [exact (deallocate_key_sub_exact m (a_labels a) addr n)|].
  exact (deallocate_cstr_sub_exact m (a_cstrs a) addr n).
Qed.

Theorem C03_deallocate_spec : forall a addr n ge a',
  deallocate a addr n ge = Ok a' ->
  a_data a' = firstn (N.to_nat addr) (a_data a) ++ skipn (N.to_nat (addr + n)) (a_data a)
  /\ size a' + n = size a
  /\ (forall x, ~ in_rng addr n x -> am_get (back addr n x) (a_text a') = am_get x (a_text a))
  /\ am_keys (a_text a') = map (back addr n) (filter (fun k => negb (in_range addr n k)) (am_keys (a_text a)))
  /\ a_ptrs a' = map (fun p => (back addr n (fst p), backl addr n ge (snd p)))
                     (filter (fun p => negb (orb (in_range addr n (fst p)) (in_range addr n (snd p)))) (a_ptrs a))
  /\ (forall x, ~ in_rng addr n x -> am_get (backl addr n ge x) (a_labels a') = am_get x (a_labels a))
  /\ am_keys (a_labels a') = map (backl addr n ge) (filter (fun k => negb (in_range addr n k)) (am_keys (a_labels a)))
  /\ a_cstrs a' = map (fun q => (fst q, map (back addr n) (snd q)))
                      (filter_cstrs (fun k => negb (in_range addr n k)) (a_cstrs a))
  /\ a_endian a' = a_endian a.
Proof. exact deallocate_spec. Qed.

(* ---- truncate: every byte and annotation at or beyond the cut is gone, the rest unchanged ---- *)
Theorem C03_truncate_spec : forall a addr a',
  truncate a addr = Ok a' ->
  (size a <= addr -> a' = a) /\
  (addr < size a ->
     a_data a' = firstn (N.to_nat addr) (a_data a) /\ size a' = addr
     /\ (forall x, am_get x (a_text a') = if x <? addr then am_get x (a_text a) else None)
     /\ (forall x, am_get x (a_ptrs a') = if x <? addr then am_get x (a_ptrs a) else None)
     /\ (forall x, am_get x (a_labels a') = if x <? addr then am_get x (a_labels a) else None)
     /\ a_cstrs a' = filter_cstrs (fun k => k <? addr) (a_cstrs a)
     /\ a_endian a' = a_endian a).
Proof. exact truncate_spec. Qed.
Theorem C03_truncate_total : forall a addr, exists a', truncate a addr = Ok a'.
Proof. exact truncate_total. Qed.

(* ---- relocated maps stay maps: no two annotations are merged onto one key (HashMap::collect loses nothing) ---- *)
Theorem C03_allocate_keeps_maps : forall a addr n ge a',
  allocate a addr n ge = Ok a' ->
  (NoDup (am_keys (a_text a)) -> NoDup (am_keys (a_text a'))) /\
  (NoDup (am_keys (a_ptrs a)) -> NoDup (am_keys (a_ptrs a'))) /\
  (NoDup (am_keys (a_labels a)) -> NoDup (am_keys (a_labels a'))).
Proof. exact allocate_keeps_maps. Qed.
Theorem C03_deallocate_keeps_maps : forall a addr n ge a',
  deallocate a addr n ge = Ok a' ->
  (NoDup (am_keys (a_text a)) -> NoDup (am_keys (a_text a'))) /\
  (NoDup (am_keys (a_ptrs a)) -> NoDup (am_keys (a_ptrs a'))) /\
  (NoDup (am_keys (a_labels a)) -> NoDup (am_keys (a_labels a'))).
Proof. exact deallocate_keeps_maps. Qed.
Theorem C03_truncate_keeps_maps : forall a addr a',
  truncate a addr = Ok a' ->
  (NoDup (am_keys (a_text a)) -> NoDup (am_keys (a_text a'))) /\
  (NoDup (am_keys (a_ptrs a)) -> NoDup (am_keys (a_ptrs a'))) /\
  (NoDup (am_keys (a_labels a)) -> NoDup (am_keys (a_labels a'))).
Proof. exact truncate_keeps_maps. Qed.

(* ---- appending at the end is always accepted and moves no annotation ----
   Guard (assumption A-usize): the new size is a valid vector length, size a + n <= isize::MAX = 2^63 - 1.  Above it the code
   does not return: allocate_at_end pushes byte by byte until the allocator aborts the process (Vec capacity overflow /
   out of memory) - resource exhaustion, outside the property; the model (a list append) has no such limit, so without the
   guard the theorem would not be about the code. *)
Theorem C03_append_always : forall a n,
  size a + n <= 2 ^ 63 - 1 ->
  a_data (allocate_at_end a n) = a_data a ++ zeros (N.to_nat n) /\ same_annotations a (allocate_at_end a n)
  /\ size (allocate_at_end a n) = size a + n.
Proof. exact allocate_at_end_spec. Qed.
Theorem C03_writer_append_always : forall a n ge,
  size a + n <= 2 ^ 63 - 1 ->
  w_allocate a (size a) n ge = (Ok tt, allocate_at_end a n, size a).
Proof. intros a n ge _. unfold w_allocate. rewrite N.eqb_refl. reflexivity. Qed.

(* ---- invariant over all histories of cell-aligned operations: every annotated cell lies inside the data ---- *)
Theorem C03_invariant : forall e ops, Forall aligned_op ops -> wf_cells (fold_left bstep ops (ba_new e)).
Proof. exact history_invariant. Qed.

(* non-vacuity: a string at 0, a pending c-string at 8, a label on the end; insert 4 bytes at 4
   (closed terms only: the run is a bind chain, so vm_compute never sees a symbolic archive) *)
Example C03_example :
  (a1 <- write_string (allocate_at_end (ba_new LE) 12) 0 (Some [65]) ;;
   a2 <- write_c_string a1 8 [66] ;;
   a3 <- write_label a2 12 [76] ;;
   a4 <- allocate a3 4 4 false ;;
   Ok (am_get 0 (a_text a4), a_cstrs a4, am_get 16 (a_labels a4), size a4))
  = Ok (Some [65], [([66], [12])], Some [[76]], 16).
Proof. vm_compute. reflexivity. Qed.
(* the rejection added by fix 0edd128 (finding F24): 8 bytes, a pointer at 0 whose target is usize::MAX - 1; inserting 4 bytes at 0
   would move the target out of usize; the same request is accepted when the target does not move (insert behind it is impossible,
   so: ge = false and the target ON the insertion point) *)
Example C03_example_unrepresentable :
  (a1 <- write_pointer (allocate_at_end (ba_new LE) 8) 0 (Some 18446744073709551614) ;; allocate a1 0 4 false) = Err EOob
  /\ (a1 <- write_pointer (allocate_at_end (ba_new LE) 8) 4 (Some 18446744073709551612) ;;
      a2 <- allocate a1 0 4 true ;; Ok (a_ptrs a2)) = Err EOob
  /\ (a1 <- write_pointer (allocate_at_end (ba_new LE) 8) 4 (Some 18446744073709551608) ;;
      a2 <- allocate a1 0 4 true ;; Ok (a_ptrs a2)) = Ok [(8, 18446744073709551612)]
  /\ (a1 <- write_pointer (allocate_at_end (ba_new LE) 8) 4 (Some 0) ;;
      a2 <- allocate a1 0 4 false ;; Ok (a_ptrs a2)) = Ok [(8, 0)]
  /\ allocate (allocate_at_end (ba_new LE) 8) 8 9223372036854775800 false = Err EOob.
Proof. vm_compute. repeat split. Qed.
