(* C03 - Allocate / deallocate / truncate relocate every annotation consistently.
   Model: Model/BinArchive.v (repaired code: c-strings relocated 47b4bc6, truncate d331668,
   checked end address 2a0d67f).  kappa relocates strings, pointer cells and pending c-string
   cells; tau relocates labels and pointer targets (inclusive at the insertion point iff ge).
   Tied to src/bin_archive.rs, src/bin_streams.rs by `./check C03`. *)
From Coq Require Import List NArith ZArith Bool.
From Mila Require Import Lib.Bytes Lib.Machine Model.BinArchive Model.BinStreams Proofs.AMapLemmas Proofs.BinAccess Proofs.BinRelocate Proofs.BinInvariant.
Import ListNotations.
Local Open Scope N_scope.

(* ---- insert: accepted iff in range and aligned; otherwise rejected (archive unchanged: no new state) ---- *)
Theorem C03_allocate_ok_iff : forall a addr n ge,
  (exists a', allocate a addr n ge = Ok a') <-> (addr <= size a /\ addr mod 4 = 0 /\ n mod 4 = 0).
Proof. exact allocate_ok_iff. Qed.
Theorem C03_allocate_rejected : forall a addr n ge,
  ~ (addr <= size a /\ addr mod 4 = 0 /\ n mod 4 = 0) ->
  allocate a addr n ge = Err EOob \/ allocate a addr n ge = Err EUnaligned.
Proof. exact allocate_rejected. Qed.

(* exact relocation, losing and inventing nothing: every key of the new maps is the image of an old key *)
Theorem C03_allocate_spec : forall a addr n ge a',
  allocate a addr n ge = Ok a' ->
  a_data a' = firstn (N.to_nat addr) (a_data a) ++ zeros (N.to_nat n) ++ skipn (N.to_nat addr) (a_data a)
  /\ size a' = size a + n
  /\ (forall x, am_get (kappa addr n x) (a_text a') = am_get x (a_text a))
  /\ am_keys (a_text a') = map (kappa addr n) (am_keys (a_text a))
  /\ (forall x, am_get (kappa addr n x) (a_ptrs a') = option_map (tau addr n ge) (am_get x (a_ptrs a)))
  /\ am_keys (a_ptrs a') = map (kappa addr n) (am_keys (a_ptrs a))
  /\ (forall x, am_get (tau addr n ge x) (a_labels a') = am_get x (a_labels a))
  /\ am_keys (a_labels a') = map (tau addr n ge) (am_keys (a_labels a))
  /\ a_cstrs a' = map (fun q => (fst q, map (kappa addr n) (snd q))) (a_cstrs a)
  /\ a_endian a' = a_endian a.
Proof. exact allocate_spec. Qed.

(* ---- remove ---- *)
Theorem C03_deallocate_ok_iff : forall a addr n ge,
  addr < USIZE_MAX1 -> n < USIZE_MAX1 -> size a < USIZE_MAX1 ->
  ((exists a', deallocate a addr n ge = Ok a') <-> (addr < size a /\ addr + n <= size a /\ addr mod 4 = 0 /\ n mod 4 = 0)).
Proof. exact deallocate_ok_iff. Qed.
Theorem C03_deallocate_rejected : forall a addr n ge,
  ~ (addr < size a /\ addr + n <= size a /\ addr mod 4 = 0 /\ n mod 4 = 0) ->
  deallocate a addr n ge = Err EOob \/ deallocate a addr n ge = Err EUnaligned.
Proof. exact deallocate_rejected. Qed.
Theorem C03_deallocate_never_panics : forall a addr n ge k, deallocate a addr n ge <> Panic k.
Proof. exact deallocate_never_panics. Qed.

Theorem C03_deallocate_spec : forall a addr n ge a',
  deallocate a addr n ge = Ok a' ->
  a_data a' = firstn (N.to_nat addr) (a_data a) ++ skipn (N.to_nat (addr + n)) (a_data a)
  /\ size a' + n = size a
  /\ (forall x, ~ in_rng addr n x -> am_get (back addr n x) (a_text a') = am_get x (a_text a))
  /\ am_keys (a_text a') = map (back addr n) (filter (fun k => negb (in_range addr n k)) (am_keys (a_text a)))
  /\ a_ptrs a' = map (fun p => (back addr n (fst p), backl addr n ge (snd p)))
                     (filter (fun p => negb (orb (in_range addr n (fst p)) (in_range addr n (snd p)))) (a_ptrs a))
  /\ (forall x, ~ in_rng addr n x -> am_get (backl addr n ge x) (a_labels a') = am_get x (a_labels a))
  /\ am_keys (a_labels a') = map (backl addr n ge) (filter (fun k => negb (in_range addr n k)) (am_keys (a_labels a)))
  /\ a_cstrs a' = map (fun q => (fst q, map (back addr n) (snd q)))
                      (filter_cstrs (fun k => negb (in_range addr n k)) (a_cstrs a))
  /\ a_endian a' = a_endian a.
Proof. exact deallocate_spec. Qed.

(* ---- truncate: every byte and annotation at or beyond the cut is gone, the rest unchanged ---- *)
Theorem C03_truncate_spec : forall a addr a',
  truncate a addr = Ok a' ->
  (size a <= addr -> a' = a) /\
  (addr < size a ->
     a_data a' = firstn (N.to_nat addr) (a_data a) /\ size a' = addr
     /\ (forall x, am_get x (a_text a') = if x <? addr then am_get x (a_text a) else None)
     /\ (forall x, am_get x (a_ptrs a') = if x <? addr then am_get x (a_ptrs a) else None)
     /\ (forall x, am_get x (a_labels a') = if x <? addr then am_get x (a_labels a) else None)
     /\ a_cstrs a' = filter_cstrs (fun k => k <? addr) (a_cstrs a)
     /\ a_endian a' = a_endian a).
Proof. exact truncate_spec. Qed.
Theorem C03_truncate_total : forall a addr, exists a', truncate a addr = Ok a'.
Proof. exact truncate_total. Qed.

(* ---- appending at the end is always accepted and moves no annotation ---- *)
Theorem C03_append_always : forall a n,
  a_data (allocate_at_end a n) = a_data a ++ zeros (N.to_nat n) /\ same_annotations a (allocate_at_end a n).
Proof. exact allocate_at_end_spec. Qed.
Theorem C03_writer_append_always : forall a n ge,
  w_allocate a (size a) n ge = (Ok tt, allocate_at_end a n, size a).
Proof. intros. unfold w_allocate. rewrite N.eqb_refl. reflexivity. Qed.

(* ---- invariant over all histories of cell-aligned operations: every annotated cell lies inside the data ---- *)
Theorem C03_invariant : forall e ops, Forall aligned_op ops -> wf_cells (fold_left bstep ops (ba_new e)).
Proof. exact history_invariant. Qed.

(* non-vacuity: a string at 0, a pending c-string at 8, a label on the end; insert 4 bytes at 4 *)
Example C03_example :
  let a0 := allocate_at_end (ba_new LE) 12 in
  exists a1 a2 a3 a4,
    write_string a0 0 (Some [65]) = Ok a1 /\ write_c_string a1 8 [66] = Ok a2 /\ write_label a2 12 [76] = Ok a3 /\
    allocate a3 4 4 false = Ok a4 /\
    am_get 0 (a_text a4) = Some [65] /\ a_cstrs a4 = [([66], [12])] /\ am_get 16 (a_labels a4) = Some [[76]] /\ size a4 = 16.
Proof. vm_compute. do 4 eexists. repeat split. Qed.
