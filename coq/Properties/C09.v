(* C09 - LZ13 compression emits a valid wrapped LZ11 stream that expands to the input.
   Statements only; every proof is [exact <lemma>].
   Models (tied to /repo by `./check C09`, debug and release builds):
     Model/LZCore.v   get_occurrence_length, the greedy loop, the emission loop       (src/lz13.rs)
     Model/LZ11.v     LZ13CompressionFormat::compress after the repair of F12 (reserve without underflow,
                      extended size form for an empty payload), token bytes in i32 arithmetic (Z),
                      calculate_lz13_header with Wrapping<i32> accumulators
     Model/LZDecode.v decompress_lz and LZ13CompressionFormat::decompress (wrapper stripping) after F13/F14
     Model/LZSpec.v   specification side: strict parser [sparse11] of the LZ11 container (three length forms).
   Not proved: the *value* of the three wrapper length bytes (the property does not constrain them; the
   correspondence compares them with the model for inputs up to 1200 bytes).
   Totality ("for every input ... returns Ok or Err and never panics or aborts"): after the repair of F21 compress
   starts with the guard `length as u64 > 0xFFFF_FFFF -> Err(InputTooLarge)`, so everything behind it sees fewer than
   2^32 bytes.  calculate_lz13_header counts in Wrapping<i32>: Model/LZ11.v represents its positions as list
   positions (faithful below 2^31 bytes; the model the extracted code and the format theorems use),
   Model/LZ13Machine.v models it at machine level (seven wrapping i32 variables, `as usize` sign extension, checked
   slice indexing) together with the reservation as an observable, Model/LZCompressMachine.v the main loop and
   get_occurrence_length: [compress13_mm].  [C09_total]: for EVERY input, Ok below 2^32 bytes and Err from there on.
   [C09_reservation]: the allocation request is 12 + n + (n+7)/8 in both profiles ("never aborts" = the request is
   linear in the input).  [C09_machine_model]: equal to the list model below 2^31; [C09_round_trip_machine]: the round
   trip holds for the machine-level model up to 2^32 as well.  What remains assumed: inputs of 2 GiB and more cannot
   be run by the harness, so above 2^31 the machine-level model is tied to src/lz13.rs by reading only; an allocation
   FAILURE (out of memory for a request that is linear in the input) aborts the process and is outside the model; a
   64-bit target. *)
From Coq Require Import List NArith Bool.
From Mila Require Import Lib.Bytes Lib.Machine Model.LZCore Model.LZ11 Model.LZ13Machine Model.LZCompressMachine Model.LZSpec Model.LZDecode
  Proofs.LZCoreProofs Proofs.LZTokens Proofs.LZ11Proofs Proofs.LZDecodeProofs Proofs.LZRoundTrip Proofs.LZ13MachineProofs Proofs.LZCompressMachineProofs Proofs.LZFormat Proofs.LZRoundTripExt.
Import ListNotations.
Local Open Scope N_scope.

Theorem C09_tokens_expand : forall x, expand (tokens 4096 x) = Some x.
Proof. exact (tokens_expand 4096). Qed.

Theorem C09_token_ranges : forall x, Forall (tok_range 4096) (tokens 4096 x).
Proof. exact (tokens_ranges 4096). Qed.

(* 4-byte 0x13 wrapper, then a well-formed LZ11 stream ([sparse11]: type 0x11, size = input length,
   complete flag groups, each reference in one of the three length forms with displacement 1-4096
   reaching only into data already produced, nothing left over) whose tokens expand to the input *)
Theorem C09_wellformed : forall m x, x <> [] -> wfb x -> lenN x < 2 ^ 24 ->
  exists h s ts, compress13 m x = Ok (0x13 :: h ++ s) /\ length h = 3%nat /\
                 sparse11 s = Some (lenN x, ts) /\ Forall ref_in_range11 ts /\ expand ts = Some x.
Proof. exact compress13_wellformed. Qed.

(* the library's decompressor returns the input; compress in mode m, decompress in any mode *)
Theorem C09_library_round_trip : forall m x, x <> [] -> wfb x -> lenN x < 2 ^ 24 ->
  exists c, compress13 m x = Ok c /\ forall m', lz13_decompress m' c = Ok x.
Proof. exact compress13_round_trip. Qed.

(* beyond the property's 16 MiB: one statement for every payload below 4 GiB - the empty one and those of 16 MiB
   and more are written with the extended size form (repair of F12) - the wrapped stream is accepted by the strict
   parser with the tokens of the greedy loop, and the library's decompressor returns the input *)
Theorem C09_round_trip_below_4GiB : forall m x, wfb x -> lenN x < 2 ^ 32 ->
  exists a b c s, compress13 m x = Ok (0x13 :: a :: b :: c :: s) /\
    sparse11 s = Some (lenN x, tokens 4096 x) /\
    forall m', lz13_decompress m' (0x13 :: a :: b :: c :: s) = Ok x.
Proof. exact compress13_round_trip_ext. Qed.

(* TOTALITY, for EVERY input and either profile, on the machine-level model [compress13_mm] (size guard of F21,
   header computation, reservation, main loop and get_occurrence_length all at machine level): Ok below 2^32 bytes
   - the empty input included -, Err(InputTooLarge) from 2^32 bytes on; never Panic, never out of fuel *)
Theorem C09_total : forall m x,
  (lenN x < 2 ^ 32 -> exists r, compress13_mm m x = Ok r) /\
  (2 ^ 32 <= lenN x -> compress13_mm m x = Err ETooLarge).
Proof.
  intros m x. split; intros H; [|exact (compress13_mm_rejects m x H)].
  destruct (compress13_mm_ok m x H) as [h Hh]. eauto.
Qed.

(* "never aborts": the only allocation request derived from the input, result.reserve(..), as an observable.
   In either profile it is exactly 12 + n + (n+7)/8 bytes - at most 2n + 13, linear in the input the caller already
   holds - for every length below 2^62 (the guard lets only n < 2^32 through).  The expression before the repair
   of F12 does not satisfy this at n = 0 (it wrapped to about 2^61 bytes in the release profile).  The other
   reservation, out_buffer.reserve_exact(8 * 4 + 1), is the constant 33. *)
Theorem C09_reservation : forall m n, n < 2 ^ 62 ->
  compress13_reserve m n = Ok (12 + n + (n + 7) / 8) /\ 12 + n + (n + 7) / 8 <= 2 * n + 13 /\ out_buffer_reserve = 33.
Proof.
  intros m n Hn. split; [exact (compress13_reserve_ok m n Hn)|]. split; [|reflexivity].
  destruct (compress13_reserve_linear m n Hn) as (c & Hc & Hle). rewrite (compress13_reserve_ok m n Hn) in Hc.
  injection Hc as <-. exact Hle.
Qed.

(* up to the largest slice Rust allows the only other outcome of the reservation is Vec::reserve's own capacity
   panic, for a request above isize::MAX (n > 0.888 * 2^63; unreachable behind the guard) *)
Theorem C09_reservation_boundary : forall m n, n < 2 ^ 63 ->
  (12 + n + (n + 7) / 8 <= ISIZE_MAX -> compress13_reserve m n = Ok (12 + n + (n + 7) / 8)) /\
  (ISIZE_MAX < 12 + n + (n + 7) / 8 -> compress13_reserve m n = Panic PAlloc).
Proof. exact compress13_reserve_boundary. Qed.

(* below 2 GiB the machine-level model IS the exported list model [compress13_o] (guard, then compress13) of all other
   theorems and of the extracted code *)
Theorem C09_machine_model : forall m x, lenN x < 2 ^ 31 -> compress13_mm m x = compress13_o m x.
Proof. exact compress13_mm_list. Qed.

(* the exported function: compress13 below 4 GiB, Err from 4 GiB on *)
Theorem C09_exported : forall m x,
  (lenN x < 2 ^ 32 -> compress13_o m x = compress13 m x) /\ (2 ^ 32 <= lenN x -> compress13_o m x = Err ETooLarge).
Proof. intros m x. split; [exact (compress13_o_small m x) | exact (compress13_o_rejects m x)]. Qed.

(* the round trip on the machine-level model itself, for every byte string below 4 GiB: between 2^31 and 2^32 bytes
   the list model's three wrapper length bytes are not proved equal to the code's, and the decoder never reads them *)
Theorem C09_round_trip_machine : forall m x, wfb x -> lenN x < 2 ^ 32 ->
  exists c, compress13_mm m x = Ok c /\ forall m', lz13_decompress m' c = Ok x.
Proof. exact compress13_mm_round_trip. Qed.

Theorem C09_total_list_model : forall m x, lenN x < 2 ^ 31 -> exists r, compress13 m x = Ok r.
Proof. exact compress13_total. Qed.

(* the empty input (finding F12, repaired): Ok in both modes, and it decompresses to the empty payload *)
Theorem C09_empty_input : forall m m', exists c, compress13 m [] = Ok c /\ lz13_decompress m' c = Ok [].
Proof. exact compress13_empty_round_trip. Qed.

Theorem C09_layout : forall m x, lenN x < 2 ^ 63 ->
  exists h, compress13 m x = Ok (header13 h (lenN x) ++ enc_body (senc V11) (tokens 4096 x)).
Proof. exact compress13_enc. Qed.

(* the same through the enum CompressionFormat::LZ13 (src/compression_format.rs:20-32) - the empty payload included *)
Theorem C09_format_entry : forall mc md x, wfb x -> lenN x < 2 ^ 24 ->
  cf_compress CF13 mc x = compress13 mc x /\
  exists c, cf_compress CF13 mc x = Ok c /\ cf_decompress CF13 md c = Ok x.
Proof.
  intros mc md x Hw Hn. split; [|exact (cf_round_trip CF13 mc md x Hw Hn)].
  apply compress13_o_small. change (2 ^ 24) with 16777216 in Hn. change (2 ^ 32) with 4294967296.
  apply N.lt_trans with (1 := Hn). reflexivity.
Qed.

(* non-vacuity: all three length forms in one input (runs of 10, 100 and 300 bytes) *)
Example C09_example :
  let x := repeat 1 10 ++ repeat 2 100 ++ repeat 3 300 in
  x <> [] /\ lenN x < 2 ^ 24 /\
  tokens 4096 x = [Lit 1; Lit 1; Ref 8 2; Lit 2; Lit 2; Ref 98 2; Lit 3; Lit 3; Ref 298 2] /\
  compress13 Checked x = Ok ([0x13; 0x9A; 0x01; 0; 0x11; 0x9A; 0x01; 0; 0x24; 1; 1; 0x70; 0x01; 2; 2; 0x05; 0x10; 0x01; 3; 3; 0x80; 0x10; 0x01; 0x90; 0x01]) /\
  lz13_decompress Wrapping [0x13; 0x9A; 0x01; 0; 0x11; 0x9A; 0x01; 0; 0x24; 1; 1; 0x70; 0x01; 2; 2; 0x05; 0x10; 0x01; 3; 3; 0x80; 0x10; 0x01; 0x90; 0x01] = Ok x.
Proof. vm_compute. repeat split; try reflexivity. discriminate. Qed.

(* the machine-level model computes the same bytes on that input (and on the empty one) *)
Example C09_example_machine :
  let x := repeat 1 10 ++ repeat 2 100 ++ repeat 3 300 in
  compress13_mm Checked x = compress13 Checked x /\ compress13_mm Wrapping [] = Ok [0x13; 9; 0; 0; 0x11; 0; 0; 0; 0; 0; 0; 0] /\
  compress13_reserve Wrapping 0 = Ok 12.
Proof. repeat split; vm_compute; reflexivity. Qed.
