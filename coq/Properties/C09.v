(* C09 - LZ13 compression emits a valid wrapped LZ11 stream that expands to the input.
   Statements only; every proof is [exact <lemma>]. *)
From Coq Require Import List NArith Bool.
From Mila Require Import Lib.Bytes Lib.Machine Model.LZCore Model.LZ11 Model.LZSpec Model.LZDecode Proofs.LZCoreProofs.
Import ListNotations.

Theorem C09_tokens_expand : forall x, expand (tokens 4096 x) = Some x.
Proof. exact (tokens_expand 4096). Qed.
