(* C17 - Animation-set file round trip.
   Model: Model/ASet.v - ASetFile::from_archive and ASetFile::serialize of src/aset.rs transcribed call by call
   with the stream operations of Model/BinStreams.v (reader: main flags -> group flags -> strings; writer: flag
   compilation, space allocation, emission).  An ASetFile value [v]: as_meta (optional string), as_table (the
   clip-name table) and as_sets; a set is a vector whose entry 0 is the optional label and whose entries 1..256 are
   the optional slot names.  Strings are Shift-JIS ENCODED byte lists (assumption A-codec).
   wf_aset v = 257 table entries, every set has 257 entries (exactly the values the reader can return).
   Proof structure (Proofs/RecsCells.v, ASetBits/Write/Read/RoundTrip.v): the writer builds EXACTLY the archive of
   the cell list [file_cells v] = header ++ 257 string cells ++ per set: main-flags word, per NON-EMPTY group its
   flags word and one string cell per PRESENT slot; labels: AnimClipNameTable at 12, every set label on the first
   byte of its record.  The reader, run on ANY archive showing that layout and those labels, returns v.
   Two layers: (1) archive API level; (2) byte level, first relative to the bin-archive round trip as an explicit
   premise (C17_round_trip), then with the premise discharged by C01 through Proofs/RecsBinBridge.v
   (C17_round_trip_final: no premise, no axiom).  Byte level needs in addition: NUL-free strings (the empty
   string is allowed) and image below 2^32 - and NO condition on the labels: the repaired code (finding F22, fix 10408e9)
   looks the table up at the LOWEST address carrying the label AnimClipNameTable, the table is written at 12 and every
   set behind it, so a set carrying that label round-trips too, for every order of the label map
   (C17_table_lookup_order_independent, Examples C17_regression_F22_in_domain, _bytes, _adversarial_order).
   Tied to src/aset.rs by `./check C17`. *)
From Coq Require Import List NArith ZArith Bool.
From Mila Require Import Lib.Bytes Lib.Machine Model.BinArchive Model.BinStreams Model.BinFormat Model.ASet
  Proofs.RecsCells Proofs.RecsBytes Proofs.FindLabel Proofs.ASetBits Proofs.ASetWrite Proofs.ASetRead Proofs.ASetRoundTrip.
From Mila Require Proofs.RecsTotal.
From Coq Require Import Permutation.
Import ListNotations.
Local Open Scope N_scope.

(* ---- flag words: bit j of the compiled word is the j-th presence bit; the reader's test reads that bit ---- *)
Theorem C17_flag_bits : forall bs j, N.testbit (compile_flags bs) j = nth (N.to_nat j) bs false.
Proof. exact compile_flags_testbit. Qed.
Theorem C17_reader_bit_test : forall x i, (N.land x (N.shiftl 1 i) =? 0) = negb (N.testbit x i).
Proof. exact land_bit_test. Qed.
Theorem C17_group_flag_bit : forall s g b, (b < 32)%nat -> N.testbit (gflag s g) (N.of_nat b) = slot_present s (g * 32 + b + 1).
Proof. exact gflag_testbit. Qed.
Theorem C17_main_flag_bit : forall s g, (g < 8)%nat -> N.testbit (main_flags s) (N.of_nat g) = group_nonempty s g.
Proof. exact main_flags_testbit. Qed.

(* ---- (1) archive level: meta, the 257 table entries, every set: label and present/absent state and name of
        each of its 256 slots ---- *)
Theorem C17_round_trip_archive : forall v, wf_aset v -> exists a, build v = Ok a /\ from_archive a = Ok v /\ a = built v.
Proof. exact round_trip_archive. Qed.

(* outside the domain: sets of any non-zero length.  The writer reads slots with `set.get(index)`, so a short set is padded with
   absent slots and entries beyond 256 are ignored: the value read back is the normalised value (which is in the domain) *)
Theorem C17_round_trip_normalises : forall v,
  length (as_table v) = 257%nat -> Forall (fun s : oset => s <> []) (as_sets v) ->
  exists a, build v = Ok a /\ from_archive a = Ok (norm_aset v) /\ wf_aset (norm_aset v).
Proof. exact round_trip_normalises. Qed.
Theorem C17_normal_form : forall v, wf_aset v -> norm_aset v = v.
Proof. exact norm_aset_wf. Qed.
(* whatever the reader returns - from ANY archive, also a foreign or malformed one - is in the domain and a fixed point of
   write -> read *)
Theorem C17_reader_output_round_trips : forall a v,
  from_archive a = Ok v -> wf_aset v /\ exists a', build v = Ok a' /\ from_archive a' = Ok v.
Proof. exact (fun a v H => conj (RecsTotal.ASetT.from_archive_wf a v H) (RecsTotal.ASetT.reader_output_round_trips a v H)). Qed.

(* the writer builds exactly the archive of the cell list and the label map *)
Theorem C17_writer_builds_cells : forall v,
  length (as_table v) = 257%nat -> Forall (fun s : oset => s <> []) (as_sets v) -> build v = Ok (built v).
Proof. exact build_spec. Qed.
(* one set record: its cells are appended, its label (if any) is attached to the first byte of the record *)
Theorem C17_write_set : forall lbl rest A,
  keys_below (a_text A) (size A) -> keys_below (a_labels A) (size A) -> a_endian A = LE ->
  let s := lbl :: rest in
  write_set s A (size A)
  = (Ok tt, set_labels (append_cells A (set_cells s)) (a_labels A ++ lbl_entry (size A) lbl), size A + cells_size (set_cells s)).
Proof. exact write_set_spec. Qed.

(* the reader depends only on observations: any archive showing the layout and the labels reads as v ... *)
Theorem C17_reader_inverts_layout : forall v a,
  wf_aset v -> a_endian a = LE -> layout a 0 (file_cells v) -> size a = cells_size (file_cells v) ->
  find_label_address a ACNT = Some 12 ->
  (forall x, SETS_AT <= x -> am_get x (a_labels a) = am_get x (sets_labels SETS_AT (as_sets v))) ->
  from_archive a = Ok v.
Proof. exact from_archive_layout. Qed.
(* ... in particular every archive observationally equal to the built one, whatever the order of its label map and whatever
   labels the sets carry *)
Theorem C17_reader_observational : forall v a',
  wf_aset v -> obs_equal (built v) a' -> from_archive a' = Ok v.
Proof. exact from_archive_obs_equal. Qed.
(* the table lookup: the lowest address carrying the label; the same for every order of the label map (HashMap iteration) *)
Theorem C17_table_lookup_order_independent : forall a a' t,
  Permutation (a_labels a) (a_labels a') -> find_label_address a t = find_label_address a' t.
Proof. exact find_label_address_perm. Qed.
Theorem C17_table_lookup_built : forall v, find_label_address (built v) ACNT = Some 12.
Proof. exact find_table_built. Qed.

Theorem C17_reserialize_identical_archive : forall v a v',
  wf_aset v -> build v = Ok a -> from_archive a = Ok v' -> v' = v /\ build v' = Ok a.
Proof. exact reserialize_identical_archive. Qed.

(* ---- (2) space: an absent slot costs nothing, an entirely absent group of 32 is omitted ---- *)
(* one set: 4 bytes of main flags + 4 per non-empty group + 4 per present slot; this is what the writer allocates *)
Theorem C17_space_set : forall lbl rest A,
  keys_below (a_text A) (size A) -> keys_below (a_labels A) (size A) -> a_endian A = LE ->
  let s := lbl :: rest in
  exists A', write_set s A (size A) = (Ok tt, A', size A + set_space s) /\ size A' = size A + set_space s /\
             (flags_to_write (compiled_flags s) + strings_to_write s + 1) * 4 = set_space s.
Proof. exact space_set. Qed.
Theorem C17_set_space_formula : forall s, set_space s = 4 * (1 + nonempty_groups s + present_slots s).
Proof. exact set_space_eq. Qed.
Theorem C17_present_slots : forall s, present_slots s = cnt (slot_present s) (seq 1 256).
Proof. exact present_slots_eq. Qed.
Theorem C17_nonempty_groups : forall s, nonempty_groups s = cnt (group_nonempty s) (seq 0 GROUPS).
Proof. exact nonempty_groups_eq. Qed.
(* the data region of the file *)
Theorem C17_space_file : forall v, wf_aset v ->
  exists a, build v = Ok a /\ size a = 12 + 4 * 257 + sets_space (as_sets v).
Proof. exact space_file. Qed.
(* ... which is the data-size field (offset 4) of the file image *)
Theorem C17_space_file_bytes : forall m v f, wf_aset v -> 12 + 4 * 257 + sets_space (as_sets v) < 2 ^ 32 ->
  serialize m v = Ok f -> u32_at LE f 4 = Some (12 + 4 * 257 + sets_space (as_sets v)).
Proof. exact space_file_bytes. Qed.
Theorem C17_space_empty_set : forall s, present_slots s = 0 -> set_space s = 4.
Proof. exact space_empty_set. Qed.
Theorem C17_absent_group_omitted : forall s g, group_nonempty s g = false -> group_cells s g = [].
Proof. exact absent_group_omitted. Qed.
Theorem C17_present_group_cells : forall s g, group_nonempty s g = true ->
  cells_size (group_cells s g) = 4 + 4 * cnt (slot_present s) (group_slots g).
Proof. exact present_group_cells. Qed.

(* ---- (3) byte level; premise = bin-archive round trip on the archives this writer builds ---- *)
Theorem C17_round_trip : forall m,
  (forall a, ba_wf a -> image_bound a + 3 < 2 ^ 32 ->
     exists f a', BinFormat.serialize m a = Ok f /\ BinFormat.from_bytes LE f = Ok a' /\ obs_equal a a') ->
  forall v, wf_aset_bytes v ->
  exists f, serialize m v = Ok f /\ parse f = Ok v /\ (forall v', parse f = Ok v' -> serialize m v' = Ok f).
Proof. exact round_trip_bytes. Qed.
(* the premise is used on a well-formed archive: what the writer builds satisfies ba_wf and the size bound *)
Theorem C17_built_archive_wf : forall v, wf_aset_bytes v -> ba_wf (built v) /\ image_bound (built v) + 3 < 2 ^ 32.
Proof. exact (fun v W => conj (built_wf v W) (built_bound v W)). Qed.
(* ... and with that premise discharged by the bin-archive round trip C01: in both arithmetic modes serialize
   succeeds, parsing the bytes returns the same value, and re-serializing whatever is re-read gives the same bytes *)
Theorem C17_round_trip_final : forall m v, wf_aset_bytes v ->
  exists f, serialize m v = Ok f /\ parse f = Ok v /\ (forall v', parse f = Ok v' -> serialize m v' = Ok f).
Proof. exact round_trip_bytes_final. Qed.

(* two values of the domain with the same image are equal *)
Theorem C17_serialize_injective : forall m v1 v2 f,
  wf_aset_bytes v1 -> wf_aset_bytes v2 -> serialize m v1 = Ok f -> serialize m v2 = Ok f -> v1 = v2.
Proof. exact serialize_injective. Qed.

(* ---- non-vacuity ---- *)
Fixpoint put (n : nat) (x : bytes) (l : oset) : oset :=
  match l with [] => [] | y :: r => match n with O => Some x :: r | S n' => y :: put n' x r end end.
(* labelled set: slots 1, 32 (last of group 0), 33 (first of group 1, the empty name), 256 (last slot); groups 2..6 empty *)
Definition ex_set1 : oset := put 256 [122] (put 33 [] (put 32 [98; 99] (put 1 [97] (Some [76; 49] :: repeat None 256)))).
(* unlabelled, entirely empty set *)
Definition ex_set2 : oset := repeat None 257.
Definition ex_aset : aset :=
  {| as_meta := Some [109]; as_table := put 256 [] (put 0 [99; 48] (repeat None 257)); as_sets := [ex_set1; ex_set2] |}.

Example C17_example_wf : wf_aset_bytes ex_aset.
Proof. apply wf_aset_bytesb_sound. vm_compute. reflexivity. Qed.
(* on this file the model's own byte-level functions round-trip (no premise needed for a concrete file) *)
Example C17_example_bytes : exists f, serialize Checked ex_aset = Ok f /\ parse f = Ok ex_aset.
Proof. eexists. split; [vm_compute; reflexivity | vm_compute; reflexivity]. Qed.
(* its data region: 12 + 1028 + (4 + 3 flag words + 4 names) * 4 + 4 *)
Example C17_example_space : exists a, build ex_aset = Ok a /\ size a = 12 + 1028 + 32 + 4.
Proof. eexists. split; [vm_compute; reflexivity | vm_compute; reflexivity]. Qed.
(* a short set (label + 3 entries) and a long one (258 entries): read back normalised *)
Example C17_example_normalises :
  let v := {| as_meta := None; as_table := repeat None 257; as_sets := [[None; Some [97]; None; Some [98]]; repeat (Some [120]) 259] |} in
  exists a, build v = Ok a /\ from_archive a = Ok (norm_aset v) /\ norm_aset v <> v.
Proof. intros; eexists. split; [vm_compute; reflexivity | split; [vm_compute; reflexivity | discriminate]]. Qed.
(* regression, finding F22 (review r5): meta "m", table[0] = "c0", ONE SET LABELLED AnimClipNameTable with slot 1 = "a".  Before
   fix 10408e9 the real crate failed on this value in 22 of 40 runs (find_label_address returned the first hit in hash order).
   It is inside the domain of C17_round_trip_final ... *)
Definition f22_witness : aset :=
  {| as_meta := Some [109]; as_table := Some [99; 48] :: repeat None 256;
     as_sets := [Some ACNT :: Some [97] :: repeat None 255] |}.
Example C17_regression_F22_in_domain : wf_aset_bytes f22_witness.
Proof. apply wf_aset_bytesb_sound. vm_compute. reflexivity. Qed.
(* ... its bytes round-trip in the model ... *)
Example C17_regression_F22_bytes : exists f, serialize Checked f22_witness = Ok f /\ parse f = Ok f22_witness.
Proof. eexists. split; [vm_compute; reflexivity | vm_compute; reflexivity]. Qed.
(* ... and with the label map in the adversarial order (the set's label first) the repaired lookup still finds the table at 12
   and the reader returns the value, while the lookup of the code before the repair returns the set's address 1040 *)
Example C17_regression_F22_adversarial_order :
  let a := set_labels (built f22_witness) [(1040, [ACNT]); (12, [ACNT])] in
  find_label_address a ACNT = Some 12 /\ from_archive a = Ok f22_witness /\ find_label_address_first a ACNT = Some 1040.
Proof. cbv zeta. split; [vm_compute; reflexivity | split; [vm_compute; reflexivity | vm_compute; reflexivity]]. Qed.
