(* C17 - Animation-set file round trip (work in progress: first computed facts). *)
From Coq Require Import List NArith ZArith Bool.
From Mila Require Import Lib.Bytes Lib.Machine Model.BinArchive Model.BinStreams Model.BinFormat Model.ASet.
Import ListNotations.
Local Open Scope N_scope.

Theorem C17_table_label : length ACNT = 17%nat.
Proof. reflexivity. Qed.
