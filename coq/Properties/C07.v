(* C07 - Text archive is an insertion-ordered map with symmetric newline escaping.
   Statements only; every proof is [exact <lemma>].  Model: Model/TextMap.v
   (tied to src/text_archive.rs by the correspondence check `./check C07`). *)
From Coq Require Import List NArith Bool Sorted.
From Mila Require Import Lib.Machine Model.TextMap Proofs.TextMapProofs Proofs.TextMapOrder.
From Mila Require Model.TextFormat Proofs.TextTotal.
Import ListNotations.

(* --- step laws: refinement to "a list of keys and a function key -> message" --- *)
Theorem C07_set_present_keeps_place : forall k v es,
  In k (map fst es) -> map fst (e_set k v es) = map fst es.
Proof. exact e_set_present. Qed.

Theorem C07_set_absent_appends : forall k v es,
  ~ In k (map fst es) -> e_set k v es = es ++ [(k, v)].
Proof. exact e_set_absent. Qed.

Theorem C07_delete_never_reorders : forall k es, NoDup (map fst es) ->
  map fst (e_del k es) = filter (fun x => negb (str_eqb k x)) (map fst es).
Proof. exact e_del_keys. Qed.

Theorem C07_set_changes_no_other_value : forall k k2 v es,
  k2 <> k -> e_lookup k2 (e_set k v es) = e_lookup k2 es.
Proof. exact e_lookup_set_other. Qed.

Theorem C07_delete_changes_no_other_value : forall k k2 es,
  k2 <> k -> e_lookup k2 (e_del k es) = e_lookup k2 es.
Proof. exact e_lookup_del_other. Qed.

(* --- histories: any sequence of set/delete/has/get/set_title from the empty archive --- *)
Theorem C07_keys_distinct : forall ops, NoDup (tm_keys (tm_run ops)).
Proof. exact run_nodup. Qed.

(* lookups return the (unescaped) value of the last set, None if deleted since or never set *)
Theorem C07_lookup_last_value : forall ops k,
  e_lookup k (t_entries (tm_run ops)) = last_write (rev ops) k.
Proof. exact run_lookup. Qed.

(* the key list is exactly the alive keys in strictly increasing order of birth, where
   birth = index of the first set of the key after its last delete *)
Theorem C07_keys_in_birth_order : forall ops,
  exists births : list nat,
    Forall2 (fun k b => birth ops k = Some b) (tm_keys (tm_run ops)) births /\
    StronglySorted lt births /\
    (forall k, In k (tm_keys (tm_run ops)) <-> birth ops k <> None).
Proof. exact keys_by_birth. Qed.

(* --- escaping --- *)
Theorem C07_unescape_normal : forall m, no_bs_n (unescape m).
Proof. exact unescape_normal. Qed.

Theorem C07_escape_inverse : forall s, no_bs_n s -> unescape (escape s) = s.
Proof. exact escape_inverse. Qed.

Theorem C07_get_has_no_newline : forall s, ~ In NL (escape s).
Proof. exact escape_no_newline. Qed.

Theorem C07_store_back : forall ops k v,
  tm_get (tm_run ops) k = Some v ->
  t_entries (tm_set (tm_run ops) k v) = t_entries (tm_run ops).
Proof. exact store_back. Qed.

(* --- dirty flag --- *)
Theorem C07_dirty_new : t_dirty tm_new = false.
Proof. reflexivity. Qed.

Theorem C07_dirty_after_set : forall ops k m rest, t_dirty (tm_run (ops ++ TSet k m :: rest)) = true.
Proof. exact dirty_after_set. Qed.

Theorem C07_dirty_only_by_set : forall ops, t_dirty (tm_run ops) = true -> exists k m, In (TSet k m) ops.
Proof. exact dirty_only_by_set. Qed.

(* ... and clear on a PARSED archive: whatever TextArchive::from_archive / from_bytes accepts (Model/TextFormat.v, the reader
   of C06) has dirty = false - unconditionally, not only for round-tripped archives *)
Theorem C07_dirty_parsed : forall fmt a t, TextFormat.from_archive fmt a = Ok t -> t_dirty t = false.
Proof. exact TextTotal.from_archive_is_clean. Qed.
Theorem C07_dirty_parsed_bytes : forall fmt e f t, TextFormat.from_bytes fmt e f = Ok t -> t_dirty t = false.
Proof. exact TextTotal.from_bytes_is_clean. Qed.

(* non-vacuity: a history with re-set, delete and re-add; escape sequences stored as newlines *)
Example C07_example :
  let a := [97%N] in let b := [98%N] in let c := [99%N] in
  tm_keys (tm_run [TSet a [1%N]; TSet b [92%N;110%N]; TSet c []; TSet a [2%N]; TDel b; TSet b [3%N]]) = [a; c; b]
  /\ tm_get (tm_run [TSet a [92%N;110%N;92%N]]) a = Some [92%N;110%N;92%N]
  /\ e_lookup a (t_entries (tm_run [TSet a [92%N;110%N;92%N]])) = Some [10%N;92%N].
Proof. vm_compute. repeat split. Qed.
