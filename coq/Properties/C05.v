(* C05 - Archive-family parsers are total on arbitrary bytes.
   Every theorem quantifies over ALL byte strings [f] (well-formed bytes: < 256) and, where the code does
   fixed-width arithmetic, over both arithmetic modes (Checked = overflow-checked build, Wrapping = release).
   Models: Model/BinFormat.v (BinArchive::from_bytes / serialize), Model/Pack.v (fe9_arc::parse / serialize),
   and the readers layered on the bin archive (text archive, arc, aset, asset binary - below).  Termination is Coq's (structural recursion; fuel lemmas where fuel is used).  The repaired
   code is modelled (fixes 6452b58, fbfd7a2, b15674a, bc4a741); `./check C05` ties the models to /repo by
   outcome category on random and structure-aware mutated inputs in both build profiles, and measures the
   largest single allocation request with a counting allocator.

   A-usize (64-bit target).  `usize` quantities that the code adds WITHOUT a width check - `text_start + offset + 0x20`,
   `pointer_value + 0x20` (bin_archive.rs:236,248), every reader `position += w` - are unbounded N in the models
   (BinFormat.from_bytes, TextFormat.*, ASet.*, AssetBin.* therefore carry no `mode`).  That is exact for a 64-bit usize
   (each operand is below 2^32 or below the buffer length, so no sum reaches 2^64); on a 32-bit target
   `text_start + offset + 0x20` can overflow for an offset near 2^32, and these theorems do not speak about such a build.
   The `mode` parameter (Checked / Wrapping) covers the u32 / u64 arithmetic the code does perform at a fixed width. *)
From Coq Require Import List NArith ZArith Bool.
From Mila Require Import Lib.Bytes Lib.Machine Model.BinArchive Model.BinFormat Model.BinFormatRun Model.Pack
  Proofs.BinFormatSpec Proofs.BinTotal Proofs.BinAllocTotal Proofs.PackTotal.
From Mila Require Proofs.C05Rejects.
From Mila Require Model.BinStreams Model.TextMap Model.TextFormat Model.Arc Proofs.TextTotal Proofs.ArcTotal Proofs.TextArcTotal.
From Mila Require Model.ASet Model.AssetBin Proofs.ASetWrite Proofs.RecsTotal.
Import ListNotations.
Local Open Scope N_scope.

(* ---------------------------------------------------------------- bin archive *)
Theorem C05_bin_from_bytes_no_panic : forall e f p, BinFormat.from_bytes e f <> Panic p.
Proof. exact from_bytes_no_panic. Qed.

(* the field-sized allocation (data.resize(data_size)) happens only after the size check, and is bounded by the input *)
Theorem C05_bin_alloc_bounded : forall e f r, resize_request e f = Some r -> r + 32 <= lenN f.
Proof. exact resize_request_bounded. Qed.
Theorem C05_bin_alloc_is_request : forall e f a r, from_bytes_alloc e f = Ok (a, r) -> resize_request e f = Some r.
Proof. exact from_bytes_alloc_is_request. Qed.

(* ... for EVERY input, whatever from_bytes returns: Model/BinFormatRun.v is from_bytes with the allocation log kept on the
   error paths too (the request of `data.resize(data_size)` is logged where the code makes it: after both header checks,
   before the data is read and before the pointer / label loops) *)
Theorem C05_bin_run_is_from_bytes : forall e f, snd (from_bytes_run e f) = BinFormat.from_bytes e f.
Proof. exact from_bytes_run_outcome. Qed.
Theorem C05_bin_allocs_bounded : forall e f, Forall (fun r => r + 32 <= lenN f) (from_bytes_allocs e f).
Proof. exact from_bytes_allocs_bounded. Qed.
(* a request is made exactly when the buffer has a header and the declared sections fit, and it is the data_size field *)
Theorem C05_bin_allocs_after_checks : forall e f r, In r (from_bytes_allocs e f) <->
  32 <= lenN f /\ exists pc lc, u32_at e f 4 = Some r /\ u32_at e f 8 = Some pc /\ u32_at e f 12 = Some lc /\
                                 r + 4 * pc + 8 * lc + 32 <= lenN f.
Proof. exact from_bytes_allocs_after_checks. Qed.
Theorem C05_bin_allocs_is_request : forall e f,
  from_bytes_allocs e f = match resize_request e f with Some r => [r] | None => [] end.
Proof. exact from_bytes_allocs_request. Qed.
(* an input that passes the header checks and then fails in the pointer table: the request is logged (and bounded) *)
Example C05_example_alloc_on_error_path :
  let f := enc LE 4 40 ++ enc LE 4 4 ++ enc LE 4 1 ++ enc LE 4 0 ++ zeros 16 ++ [1;2;3;4] ++ enc LE 4 4294967295 in
  from_bytes_run LE f = ([4], Err EOob) /\ from_bytes_alloc LE f = Err EOob.
Proof. exact alloc_logged_on_error_path. Qed.

(* a header declaring more data, pointers or labels than the buffer holds is rejected (unbounded arithmetic:
   no wrap-around can make the sum small) *)
Theorem C05_bin_declared_sizes_rejected : forall e f dsz pc lc,
  u32_at e f 4 = Some dsz -> u32_at e f 8 = Some pc -> u32_at e f 12 = Some lc ->
  lenN f < dsz + 4 * pc + 8 * lc + 32 -> BinFormat.from_bytes e f = Err ETooSmall.
Proof. exact declared_sizes_rejected. Qed.

(* per-entry bounds (bin_archive.rs:230-254): a pointer-table entry whose 4-byte cell is not inside the data region, a
   label whose address lies beyond the data region, a label whose name offset lies at or beyond the end of the file -
   each is REJECTED (some Err: the entry may sit behind an earlier defect that is reported first), not merely "no panic" *)
Theorem C05_bin_pointer_entry_rejected : forall e f dsz pc lc,
  u32_at e f 4 = Some dsz -> u32_at e f 8 = Some pc -> u32_at e f 12 = Some lc ->
  forall i pa, i < pc -> u32_at e f (32 + dsz + 4 * i) = Some pa -> dsz < pa + 4 -> exists er, BinFormat.from_bytes e f = Err er.
Proof. exact C05Rejects.bin_pointer_entry_rejected. Qed.
Theorem C05_bin_label_address_rejected : forall e f dsz pc lc,
  u32_at e f 4 = Some dsz -> u32_at e f 8 = Some pc -> u32_at e f 12 = Some lc ->
  forall j addr, j < lc -> u32_at e f (32 + dsz + 4 * pc + 8 * j) = Some addr -> dsz < addr -> exists er, BinFormat.from_bytes e f = Err er.
Proof. exact C05Rejects.bin_label_address_rejected. Qed.
Theorem C05_bin_label_offset_rejected : forall e f dsz pc lc,
  u32_at e f 4 = Some dsz -> u32_at e f 8 = Some pc -> u32_at e f 12 = Some lc ->
  forall j off, j < lc -> u32_at e f (32 + dsz + 4 * pc + 8 * j + 4) = Some off ->
  lenN f <= dsz + 4 * pc + 8 * lc + off + 32 -> exists er, BinFormat.from_bytes e f = Err er.
Proof. exact C05Rejects.bin_label_offset_rejected. Qed.
(* what acceptance implies: the declared sections fit and every table entry is in bounds *)
Theorem C05_bin_accepted_tables_in_bounds : forall e f a, BinFormat.from_bytes e f = Ok a ->
  exists dsz pc lc, u32_at e f 4 = Some dsz /\ u32_at e f 8 = Some pc /\ u32_at e f 12 = Some lc /\
    dsz + 4 * pc + 8 * lc + 32 <= lenN f /\
    (forall i, i < pc -> exists pa, u32_at e f (32 + dsz + 4 * i) = Some pa /\ pa + 4 <= dsz) /\
    (forall j, j < lc -> exists addr off, u32_at e f (32 + dsz + 4 * pc + 8 * j) = Some addr /\
        u32_at e f (32 + dsz + 4 * pc + 8 * j + 4) = Some off /\ addr <= dsz /\ dsz + 4 * pc + 8 * lc + off + 32 < lenN f).
Proof. exact C05Rejects.from_bytes_Ok_tables. Qed.
(* the header theorem carried to ANY reader of the shape `a <- BinArchive::from_bytes ;; g a` (text archive, arc, aset,
   asset binary are of that shape), and any bin-parser error is the layered reader's error *)
Theorem C05_layered_header_rejected : forall A (g : archive -> outcome A) e f dsz pc lc,
  u32_at e f 4 = Some dsz -> u32_at e f 8 = Some pc -> u32_at e f 12 = Some lc ->
  lenN f < dsz + 4 * pc + 8 * lc + 32 -> (a <- BinFormat.from_bytes e f ;; g a) = Err ETooSmall.
Proof. exact (@C05Rejects.layered_header_rejected). Qed.
Theorem C05_layered_error_passes : forall A (g : archive -> outcome A) e f er,
  BinFormat.from_bytes e f = Err er -> (a <- BinFormat.from_bytes e f ;; g a) = Err er.
Proof. exact (@C05Rejects.layered_error_passes). Qed.

(* anything accepted can be re-serialized without panicking, in both modes, whatever the sort key of label names
   (Model/BinFormat.v name_key: the big-endian label order compares the DECODED names) *)
Theorem C05_bin_reserialize_no_panic : forall kf e f a m p,
  wfb f -> BinFormat.from_bytes e f = Ok a -> BinFormat.serialize_k kf m a <> Panic p.
Proof. exact reserialize_no_panic. Qed.

(* ---------------------------------------------------------------- GameCube/Wii pack *)
Theorem C05_pack_parse_no_panic : forall m f, wfb f -> forall k, Pack.parse m f <> Panic k.
Proof. exact pack_parse_no_panic. Qed.
Theorem C05_pack_alloc_bound : forall m f, wfb f -> Forall (fun r => r <= lenN f) (Pack.parse_allocs m f).
Proof. exact pack_alloc_bound. Qed.
Theorem C05_pack_declared_size_rejected : forall m f count i fa sz,
  wfb f -> u16_at BE f 4 = Some count -> i < count ->
  u32_at BE f (8 + 16 * i + 8) = Some fa -> u32_at BE f (8 + 16 * i + 12) = Some sz ->
  lenN f < fa + sz -> exists e, Pack.parse m f = Err e.
Proof. exact pack_declared_size_rejected. Qed.
(* a header whose COUNT declares more 16-byte table entries than the buffer holds *)
Theorem C05_pack_count_rejected : forall m f count, wfb f -> u16_at BE f 4 = Some count -> 1 <= count ->
  lenN f < 8 + 16 * count -> exists e, Pack.parse m f = Err e.
Proof. exact C05Rejects.pack_count_rejected. Qed.
(* the hypotheses of C05_pack_declared_size_rejected are satisfiable: the finding F8 input (one entry, address 0x20,
   size 0xFFFFFFF0 in a 48-byte buffer) is rejected with ETooSmall and NO allocation is requested *)
Example C05_example_F8 : forall m, Pack.parse_run m PackTotal.F8_input = ([], Err ETooSmall).
Proof. exact PackTotal.F8_repaired. Qed.
Theorem C05_pack_reserialize_no_panic : forall m f v, Pack.parse m f = Ok v -> forall k, Pack.serialize v <> Panic k.
Proof. exact pack_reserialize_no_panic. Qed.

(* non-vacuity / regression witnesses: the finding F6 header (data_size = 0xFFFFFFF0, pointer_count = 4 in a
   64-byte buffer) is rejected, no allocation is requested *)
Example C05_example_F6 :
  let f := enc LE 4 0 ++ enc LE 4 4294967280 ++ enc LE 4 4 ++ enc LE 4 0 ++ zeros 48 in
  BinFormat.from_bytes LE f = Err ETooSmall /\ resize_request LE f = None.
Proof. vm_compute. split; reflexivity. Qed.

(* ---------------------------------------------------------------- text archive (src/text_archive.rs, src/encoded_strings.rs) *)
(* additional header line (Require WITHOUT Import: TextFormat / Arc also define from_bytes / serialize, TextTotal defines not_panic):
From Mila Require Model.BinStreams Model.TextMap Model.TextFormat Model.Arc Proofs.TextTotal Proofs.ArcTotal Proofs.TextArcTotal.  *)

(* TextArchive::from_bytes, every byte string, both encodings, both endiannesses: never a panic *)
Theorem C05_text_from_bytes_no_panic : forall fmt e f k, TextFormat.from_bytes fmt e f <> Panic k.
Proof. exact TextArcTotal.text_from_bytes_never_panics. Qed.
(* the model's fuel (S |data|) is never exhausted: the real loops terminate *)
Theorem C05_text_from_bytes_fuel_suffices : forall fmt e f, TextFormat.from_bytes fmt e f <> Err EOutOfFuel.
Proof. exact TextArcTotal.text_from_bytes_fuel_suffices. Qed.
(* the walk moves at least 4 bytes per message and stays 4-aligned: at most |data| / 4 + 1 iterations *)
Theorem C05_text_walk_step_advances : forall fmt a sfuel pos msg p,
  pos mod 4 = 0 -> TextFormat.r_read_message fmt sfuel a pos = (Ok msg, p) -> pos + 4 <= p /\ p mod 4 = 0.
Proof. exact TextTotal.text_walk_step_advances. Qed.
(* TextArchive::from_archive on EVERY archive value (also ones no file produces) *)
Theorem C05_text_from_archive_no_panic : forall fmt a k, TextFormat.from_archive fmt a <> Panic k.
Proof. exact TextTotal.text_from_archive_no_panic. Qed.
Theorem C05_text_from_archive_fuel_suffices : forall fmt a, TextFormat.from_archive fmt a <> Err EOutOfFuel.
Proof. exact TextTotal.text_from_archive_fuel_never_exhausted. Qed.
(* anything accepted re-serializes WITHOUT A PANIC, either arithmetic mode, either endianness: the property's sentence, for
   arbitrary accepted input.  (Only the no-panic half is claimed here: the library's serialize returns
   Err(EncodingFailed) for an accepted file one of whose strings was decoded lossily - e.g. data 81 00 00 00, Unicode format:
   title U+FFFD - because to_shift_jis fails; an Err is not a panic.) *)
Theorem C05_text_reserialize_no_panic : forall fmt e f t, TextFormat.from_bytes fmt e f = Ok t ->
  forall kf m e' k, TextFormat.serialize kf m fmt e' t <> Panic k.
Proof. exact TextArcTotal.text_accepted_reserialize_no_panic. Qed.
(* the writer is total on every text archive value OF THE MODEL, i.e. on ENCODED strings (Shift-JIS bytes / UTF-16 units):
   the Ok conclusion is conditional on A-codec - it describes the library for archives whose strings lie in the codec's
   image (to_shift_jis succeeds and gives these bytes); for other strings the library answers Err(EncodingFailed), which the
   model does not have.  No panic in either case (the theorem above and C05_text_serialize_no_panic). *)
(* ... and on the image fitting the 32-bit sizes of the bin format: a text archive whose image would be 4 GiB or more is
   rejected by BinArchive::serialize with an error (fix 524d15f, finding F25), in the model Err EOther - not a panic *)
Theorem C05_text_serialize_total_on_encoded : forall kf m fmt e t,
  (exists f, TextFormat.serialize kf m fmt e t = Ok f) \/ TextFormat.serialize kf m fmt e t = Err EOther.
Proof. exact TextTotal.text_serialize_ok_or_too_large. Qed.
Theorem C05_text_serialize_no_panic : forall kf m fmt e t k, TextFormat.serialize kf m fmt e t <> Panic k.
Proof. exact TextTotal.text_serialize_no_panic. Qed.
(* a bin header that declares more than the buffer holds (or a buffer without a header) is rejected by the text reader too *)
Theorem C05_text_header_rejected : forall fmt e f dsz pc lc,
  u32_at e f 4 = Some dsz -> u32_at e f 8 = Some pc -> u32_at e f 12 = Some lc ->
  lenN f < dsz + 4 * pc + 8 * lc + 32 -> TextFormat.from_bytes fmt e f = Err ETooSmall.
Proof. exact C05Rejects.text_header_rejected. Qed.
Theorem C05_text_short_rejected : forall fmt e f, lenN f < 32 -> TextFormat.from_bytes fmt e f = Err ETooSmall.
Proof. exact C05Rejects.text_short_rejected. Qed.

(* ---------------------------------------------------------------- 3DS arc (src/arc.rs) *)
(* arc::from_bytes, every byte string, both arithmetic modes (repaired code bc4a741) *)
Theorem C05_arc_from_bytes_no_panic : forall m f k, Arc.arc_from_bytes m f <> Panic k.
Proof. exact TextArcTotal.arc_from_bytes_never_panics. Qed.
Theorem C05_arc_from_bytes_fuel_suffices : forall m f, Arc.arc_from_bytes m f <> Err EOutOfFuel.
Proof. exact TextArcTotal.arc_from_bytes_fuel_suffices. Qed.
Theorem C05_arc_from_archive_no_panic : forall m a k, Arc.arc_from_archive m a <> Panic k.
Proof. exact ArcTotal.arc_from_archive_no_panic. Qed.
Theorem C05_arc_from_archive_fuel_suffices : forall m a, Arc.arc_from_archive m a <> Err EOutOfFuel.
Proof. exact ArcTotal.arc_from_archive_fuel_never_exhausted. Qed.
(* no buffer is sized by a record's size field: a body is pushed byte by byte while bytes exist, so it is never longer
   than the data region, which itself is at most |file| - 32 *)
Theorem C05_arc_body_bounded : forall f a address sz b,
  BinFormat.from_bytes LE f = Ok a -> fst (BinStreams.r_read_bytes a address sz) = Ok b -> lenN b + 32 <= lenN f.
Proof. exact TextArcTotal.arc_bodies_bounded_by_file. Qed.
(* a bin header that declares more than the buffer holds is rejected by arc::from_bytes too *)
Theorem C05_arc_header_rejected : forall m f dsz pc lc,
  u32_at LE f 4 = Some dsz -> u32_at LE f 8 = Some pc -> u32_at LE f 12 = Some lc ->
  lenN f < dsz + 4 * pc + 8 * lc + 32 -> Arc.arc_from_bytes m f = Err ETooSmall.
Proof. exact C05Rejects.arc_header_rejected. Qed.
Theorem C05_arc_short_rejected : forall m f, lenN f < 32 -> Arc.arc_from_bytes m f = Err ETooSmall.
Proof. exact C05Rejects.arc_short_rejected. Qed.
(* a Count word that declares more 16-byte records than fit between the Info address and the end of the data region *)
Theorem C05_arc_count_rejected : forall m a c i n,
  find_label_address a Arc.COUNT = Some c -> find_label_address a Arc.INFO = Some i ->
  read_u32 a c = Ok n -> 1 <= n -> size a < i + 16 * n -> exists er, Arc.arc_from_archive m a = Err er.
Proof. exact C05Rejects.arc_count_rejected. Qed.
Theorem C05_arc_file_count_rejected : forall m f a c i n, BinFormat.from_bytes LE f = Ok a ->
  find_label_address a Arc.COUNT = Some c -> find_label_address a Arc.INFO = Some i ->
  read_u32 a c = Ok n -> 1 <= n -> size a < i + 16 * n -> exists er, Arc.arc_from_bytes m f = Err er.
Proof. exact C05Rejects.arc_file_count_rejected. Qed.
(* (a record whose RANGE leaves the data region: C16_range_outside, C16_offset_overflow in Properties/C16.v) *)
(* the repaired code has no profile-dependent arithmetic left *)
Theorem C05_arc_mode_independent : forall a, Arc.arc_from_archive Checked a = Arc.arc_from_archive Wrapping a.
Proof. exact ArcTotal.arc_mode_independent. Qed.
(* finding F9 on the model of the code before the repair (padded header, offset 0xFFFFFFF0): panic in the checked build,
   a read from a wrapped address in the wrapping build; the repaired code rejects the record in both *)
Example C05_example_F9 :
  fst (Arc.read_entry_unrepaired Checked ArcTotal.f9_archive 0x64 Arc.HEADER_PAD) = Panic POverflow /\
  (forall m, Arc.arc_from_archive m ArcTotal.f9_archive = Err EOob).
Proof. split; [exact ArcTotal.f9_unrepaired_checked_panics | exact ArcTotal.f9_repaired_rejects]. Qed.

(* ---------------------------------------------------------------- animation-set files / asset binaries
   (readers layered on the bin archive; Model/ASet.v, Model/AssetBin.v, Proofs/RecsTotal.v).  The readers contain no
   fixed-width arithmetic, so their statements carry no mode; the mode enters through BinFormat.serialize. *)
(* every byte string: never a panic, the loop fuel (|data| + 1) is never exhausted *)
Theorem C05_aset_parse_no_panic : forall f k, ASet.parse f <> Panic k.
Proof. exact RecsTotal.ASetT.parse_no_panic. Qed.
Theorem C05_aset_parse_fuel_suffices : forall f, ASet.parse f <> Err EOutOfFuel.
Proof. exact RecsTotal.ASetT.parse_fuel_never_exhausted. Qed.
(* every archive value (also ones from_bytes cannot produce) *)
Theorem C05_aset_from_archive_no_panic : forall a k, ASet.from_archive a <> Panic k.
Proof. exact RecsTotal.ASetT.from_archive_no_panic. Qed.
Theorem C05_aset_from_archive_fuel_suffices : forall a, ASet.from_archive a <> Err EOutOfFuel.
Proof. exact RecsTotal.ASetT.from_archive_fuel_never_exhausted. Qed.
(* the only outcomes: a value with 257 table entries and 257 entries per set, an out-of-bounds read, the missing table label *)
Theorem C05_aset_from_archive_total : forall a,
  match ASet.from_archive a with Ok v => ASetWrite.wf_aset v | Err e => e = EOob \/ e = EOther | Panic _ => False end.
Proof. exact RecsTotal.ASetT.from_archive_total. Qed.
(* one iteration of `while reader.tell() < archive.size()` consumes at least the 4 bytes of main_flags, and every flags word and
   string cell its flags announce lies inside the data: a record that announces more than the data holds is rejected *)
Theorem C05_aset_read_set_advances : forall a p s p',
  ASet.read_set a p = Ok (s, p') -> p + 4 <= p' <= size a /\ length s = 257%nat.
Proof. exact RecsTotal.ASetT.read_set_advances. Qed.
(* anything accepted can be re-serialized without panicking, in both modes *)
Theorem C05_aset_reserialize_no_panic : forall f v m k, ASet.parse f = Ok v -> ASet.serialize m v <> Panic k.
Proof. exact RecsTotal.ASetT.reserialize_no_panic. Qed.

(* a bin header that declares more than the buffer holds is rejected by the aset / asset-binary readers too *)
Theorem C05_aset_header_rejected : forall f dsz pc lc,
  u32_at LE f 4 = Some dsz -> u32_at LE f 8 = Some pc -> u32_at LE f 12 = Some lc ->
  lenN f < dsz + 4 * pc + 8 * lc + 32 -> ASet.parse f = Err ETooSmall.
Proof. exact (C05Rejects.layered_header_rejected ASet.from_archive LE). Qed.
Theorem C05_asset_header_rejected : forall f dsz pc lc,
  u32_at LE f 4 = Some dsz -> u32_at LE f 8 = Some pc -> u32_at LE f 12 = Some lc ->
  lenN f < dsz + 4 * pc + 8 * lc + 32 -> AssetBin.parse f = Err ETooSmall.
Proof. exact (C05Rejects.layered_header_rejected AssetBin.from_archive LE). Qed.

Theorem C05_asset_parse_no_panic : forall f k, AssetBin.parse f <> Panic k.
Proof. exact RecsTotal.AssetT.parse_no_panic. Qed.
Theorem C05_asset_parse_fuel_suffices : forall f, AssetBin.parse f <> Err EOutOfFuel.
Proof. exact RecsTotal.AssetT.parse_fuel_never_exhausted. Qed.
Theorem C05_asset_from_archive_no_panic : forall a k, AssetBin.from_archive a <> Panic k.
Proof. exact RecsTotal.AssetT.from_archive_no_panic. Qed.
Theorem C05_asset_from_archive_fuel_suffices : forall a, AssetBin.from_archive a <> Err EOutOfFuel.
Proof. exact RecsTotal.AssetT.from_archive_fuel_never_exhausted. Qed.
(* the read-until-malformed loop always ends with the specs read so far: only an archive without the 4-byte header word is rejected *)
Theorem C05_asset_from_archive_ok_iff : forall a, (exists b, AssetBin.from_archive a = Ok b) <-> 4 <= size a.
Proof. exact RecsTotal.AssetT.from_archive_ok_iff. Qed.
(* one record consumes at least 8 bytes (flag bytes + name cell) and everything its flags announce lies inside the data (a record
   announcing more is rejected - and ends the loop); flags[4..6] are only indexed when 8 flag bytes were read *)
Theorem C05_asset_from_stream_advances : forall a p sp p',
  AssetBin.from_stream a p = Ok (sp, p') -> p + 8 <= p' <= size a.
Proof. exact RecsTotal.AssetT.from_stream_advances. Qed.
Theorem C05_asset_from_stream_no_panic : forall a p k, AssetBin.from_stream a p <> Panic k.
Proof. exact RecsTotal.AssetT.from_stream_no_panic. Qed.
(* EVERY asset-binary value serializes without panic in both modes, in particular anything accepted *)
Theorem C05_asset_serialize_no_panic : forall m b k, AssetBin.serialize m b <> Panic k.
Proof. exact RecsTotal.AssetT.serialize_no_panic. Qed.
Theorem C05_asset_reserialize_no_panic : forall f b m k, AssetBin.parse f = Ok b -> AssetBin.serialize m b <> Panic k.
Proof. exact RecsTotal.AssetT.reserialize_no_panic. Qed.
