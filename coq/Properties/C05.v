(* C05 - Archive-family parsers are total on arbitrary bytes.
   Every theorem quantifies over ALL byte strings [f] (well-formed bytes: < 256) and, where the code does
   fixed-width arithmetic, over both arithmetic modes (Checked = overflow-checked build, Wrapping = release).
   Models: Model/BinFormat.v (BinArchive::from_bytes / serialize), Model/Pack.v (fe9_arc::parse / serialize),
   and the readers layered on the bin archive (text archive, arc, aset, asset binary - below).  Termination is Coq's (structural recursion; fuel lemmas where fuel is used).  The repaired
   code is modelled (fixes 6452b58, fbfd7a2, b15674a, bc4a741); `./check C05` ties the models to /repo by
   outcome category on random and structure-aware mutated inputs in both build profiles, and measures the
   largest single allocation request with a counting allocator. *)
From Coq Require Import List NArith ZArith Bool.
From Mila Require Import Lib.Bytes Lib.Machine Model.BinArchive Model.BinFormat Model.Pack
  Proofs.BinFormatSpec Proofs.BinTotal Proofs.PackTotal.
From Mila Require Model.BinStreams Model.TextMap Model.TextFormat Model.Arc Proofs.TextTotal Proofs.ArcTotal Proofs.TextArcTotal.
From Mila Require Model.ASet Model.AssetBin Proofs.ASetWrite Proofs.RecsTotal.
Import ListNotations.
Local Open Scope N_scope.

(* ---------------------------------------------------------------- bin archive *)
Theorem C05_bin_from_bytes_no_panic : forall e f p, BinFormat.from_bytes e f <> Panic p.
Proof. exact from_bytes_no_panic. Qed.

(* the field-sized allocation (data.resize(data_size)) happens only after the size check, and is bounded by the input *)
Theorem C05_bin_alloc_bounded : forall e f r, resize_request e f = Some r -> r + 32 <= lenN f.
Proof. exact resize_request_bounded. Qed.
Theorem C05_bin_alloc_is_request : forall e f a r, from_bytes_alloc e f = Ok (a, r) -> resize_request e f = Some r.
Proof. exact from_bytes_alloc_is_request. Qed.

(* a header declaring more data, pointers or labels than the buffer holds is rejected (unbounded arithmetic:
   no wrap-around can make the sum small) *)
Theorem C05_bin_declared_sizes_rejected : forall e f dsz pc lc,
  u32_at e f 4 = Some dsz -> u32_at e f 8 = Some pc -> u32_at e f 12 = Some lc ->
  lenN f < dsz + 4 * pc + 8 * lc + 32 -> BinFormat.from_bytes e f = Err ETooSmall.
Proof. exact declared_sizes_rejected. Qed.

(* anything accepted can be re-serialized without panicking, in both modes, whatever the sort key of label names
   (Model/BinFormat.v name_key: the big-endian label order compares the DECODED names) *)
Theorem C05_bin_reserialize_no_panic : forall kf e f a m p,
  wfb f -> BinFormat.from_bytes e f = Ok a -> BinFormat.serialize_k kf m a <> Panic p.
Proof. exact reserialize_no_panic. Qed.

(* ---------------------------------------------------------------- GameCube/Wii pack *)
Theorem C05_pack_parse_no_panic : forall m f, wfb f -> forall k, Pack.parse m f <> Panic k.
Proof. exact pack_parse_no_panic. Qed.
Theorem C05_pack_alloc_bound : forall m f, wfb f -> Forall (fun r => r <= lenN f) (Pack.parse_allocs m f).
Proof. exact pack_alloc_bound. Qed.
Theorem C05_pack_declared_size_rejected : forall m f count i fa sz,
  wfb f -> u16_at BE f 4 = Some count -> i < count ->
  u32_at BE f (8 + 16 * i + 8) = Some fa -> u32_at BE f (8 + 16 * i + 12) = Some sz ->
  lenN f < fa + sz -> exists e, Pack.parse m f = Err e.
Proof. exact pack_declared_size_rejected. Qed.
Theorem C05_pack_reserialize_no_panic : forall m f v, Pack.parse m f = Ok v -> forall k, Pack.serialize v <> Panic k.
Proof. exact pack_reserialize_no_panic. Qed.

(* non-vacuity / regression witnesses: the finding F6 header (data_size = 0xFFFFFFF0, pointer_count = 4 in a
   64-byte buffer) is rejected, no allocation is requested *)
Example C05_example_F6 :
  let f := enc LE 4 0 ++ enc LE 4 4294967280 ++ enc LE 4 4 ++ enc LE 4 0 ++ zeros 48 in
  BinFormat.from_bytes LE f = Err ETooSmall /\ resize_request LE f = None.
Proof. vm_compute. split; reflexivity. Qed.

(* ---------------------------------------------------------------- text archive (src/text_archive.rs, src/encoded_strings.rs) *)
(* additional header line (Require WITHOUT Import: TextFormat / Arc also define from_bytes / serialize, TextTotal defines not_panic):
From Mila Require Model.BinStreams Model.TextMap Model.TextFormat Model.Arc Proofs.TextTotal Proofs.ArcTotal Proofs.TextArcTotal.  *)

(* TextArchive::from_bytes, every byte string, both encodings, both endiannesses: never a panic *)
Theorem C05_text_from_bytes_no_panic : forall fmt e f k, TextFormat.from_bytes fmt e f <> Panic k.
Proof. exact TextArcTotal.text_from_bytes_never_panics. Qed.
(* the model's fuel (S |data|) is never exhausted: the real loops terminate *)
Theorem C05_text_from_bytes_fuel_suffices : forall fmt e f, TextFormat.from_bytes fmt e f <> Err EOutOfFuel.
Proof. exact TextArcTotal.text_from_bytes_fuel_suffices. Qed.
(* the walk moves at least 4 bytes per message and stays 4-aligned: at most |data| / 4 + 1 iterations *)
Theorem C05_text_walk_step_advances : forall fmt a sfuel pos msg p,
  pos mod 4 = 0 -> TextFormat.r_read_message fmt sfuel a pos = (Ok msg, p) -> pos + 4 <= p /\ p mod 4 = 0.
Proof. exact TextTotal.text_walk_step_advances. Qed.
(* TextArchive::from_archive on EVERY archive value (also ones no file produces) *)
Theorem C05_text_from_archive_no_panic : forall fmt a k, TextFormat.from_archive fmt a <> Panic k.
Proof. exact TextTotal.text_from_archive_no_panic. Qed.
Theorem C05_text_from_archive_fuel_suffices : forall fmt a, TextFormat.from_archive fmt a <> Err EOutOfFuel.
Proof. exact TextTotal.text_from_archive_fuel_never_exhausted. Qed.
(* anything accepted re-serializes (to Ok, so without a panic), either arithmetic mode, either endianness *)
Theorem C05_text_reserialize_no_panic : forall fmt e f t, TextFormat.from_bytes fmt e f = Ok t ->
  forall kf m e', (exists f', TextFormat.serialize kf m fmt e' t = Ok f') /\ forall k, TextFormat.serialize kf m fmt e' t <> Panic k.
Proof. exact TextArcTotal.text_accepted_reserializes. Qed.
(* the writer is total on every text archive value *)
Theorem C05_text_serialize_total : forall kf m fmt e t, exists f, TextFormat.serialize kf m fmt e t = Ok f.
Proof. exact TextTotal.text_serialize_ok. Qed.

(* ---------------------------------------------------------------- 3DS arc (src/arc.rs) *)
(* arc::from_bytes, every byte string, both arithmetic modes (repaired code bc4a741) *)
Theorem C05_arc_from_bytes_no_panic : forall m f k, Arc.arc_from_bytes m f <> Panic k.
Proof. exact TextArcTotal.arc_from_bytes_never_panics. Qed.
Theorem C05_arc_from_bytes_fuel_suffices : forall m f, Arc.arc_from_bytes m f <> Err EOutOfFuel.
Proof. exact TextArcTotal.arc_from_bytes_fuel_suffices. Qed.
Theorem C05_arc_from_archive_no_panic : forall m a k, Arc.arc_from_archive m a <> Panic k.
Proof. exact ArcTotal.arc_from_archive_no_panic. Qed.
Theorem C05_arc_from_archive_fuel_suffices : forall m a, Arc.arc_from_archive m a <> Err EOutOfFuel.
Proof. exact ArcTotal.arc_from_archive_fuel_never_exhausted. Qed.
(* no buffer is sized by a record's size field: a body is pushed byte by byte while bytes exist, so it is never longer
   than the data region, which itself is at most |file| - 32 *)
Theorem C05_arc_body_bounded : forall f a address sz b,
  BinFormat.from_bytes LE f = Ok a -> fst (BinStreams.r_read_bytes a address sz) = Ok b -> lenN b + 32 <= lenN f.
Proof. exact TextArcTotal.arc_bodies_bounded_by_file. Qed.
(* the repaired code has no profile-dependent arithmetic left *)
Theorem C05_arc_mode_independent : forall a, Arc.arc_from_archive Checked a = Arc.arc_from_archive Wrapping a.
Proof. exact ArcTotal.arc_mode_independent. Qed.
(* finding F9 on the model of the code before the repair (padded header, offset 0xFFFFFFF0): panic in the checked build,
   a read from a wrapped address in the wrapping build; the repaired code rejects the record in both *)
Example C05_example_F9 :
  fst (Arc.read_entry_unrepaired Checked ArcTotal.f9_archive 0x64 Arc.HEADER_PAD) = Panic POverflow /\
  (forall m, Arc.arc_from_archive m ArcTotal.f9_archive = Err EOob).
Proof. split; [exact ArcTotal.f9_unrepaired_checked_panics | exact ArcTotal.f9_repaired_rejects]. Qed.

(* ---------------------------------------------------------------- animation-set files / asset binaries
   (readers layered on the bin archive; Model/ASet.v, Model/AssetBin.v, Proofs/RecsTotal.v).  The readers contain no
   fixed-width arithmetic, so their statements carry no mode; the mode enters through BinFormat.serialize. *)
(* every byte string: never a panic, the loop fuel (|data| + 1) is never exhausted *)
Theorem C05_aset_parse_no_panic : forall f k, ASet.parse f <> Panic k.
Proof. exact RecsTotal.ASetT.parse_no_panic. Qed.
Theorem C05_aset_parse_fuel_suffices : forall f, ASet.parse f <> Err EOutOfFuel.
Proof. exact RecsTotal.ASetT.parse_fuel_never_exhausted. Qed.
(* every archive value (also ones from_bytes cannot produce) *)
Theorem C05_aset_from_archive_no_panic : forall a k, ASet.from_archive a <> Panic k.
Proof. exact RecsTotal.ASetT.from_archive_no_panic. Qed.
Theorem C05_aset_from_archive_fuel_suffices : forall a, ASet.from_archive a <> Err EOutOfFuel.
Proof. exact RecsTotal.ASetT.from_archive_fuel_never_exhausted. Qed.
(* the only outcomes: a value with 257 table entries and 257 entries per set, an out-of-bounds read, the missing table label *)
Theorem C05_aset_from_archive_total : forall a,
  match ASet.from_archive a with Ok v => ASetWrite.wf_aset v | Err e => e = EOob \/ e = EOther | Panic _ => False end.
Proof. exact RecsTotal.ASetT.from_archive_total. Qed.
(* one iteration of `while reader.tell() < archive.size()` consumes at least the 4 bytes of main_flags, and every flags word and
   string cell its flags announce lies inside the data: a record that announces more than the data holds is rejected *)
Theorem C05_aset_read_set_advances : forall a p s p',
  ASet.read_set a p = Ok (s, p') -> p + 4 <= p' <= size a /\ length s = 257%nat.
Proof. exact RecsTotal.ASetT.read_set_advances. Qed.
(* anything accepted can be re-serialized without panicking, in both modes *)
Theorem C05_aset_reserialize_no_panic : forall f v m k, ASet.parse f = Ok v -> ASet.serialize m v <> Panic k.
Proof. exact RecsTotal.ASetT.reserialize_no_panic. Qed.

Theorem C05_asset_parse_no_panic : forall f k, AssetBin.parse f <> Panic k.
Proof. exact RecsTotal.AssetT.parse_no_panic. Qed.
Theorem C05_asset_parse_fuel_suffices : forall f, AssetBin.parse f <> Err EOutOfFuel.
Proof. exact RecsTotal.AssetT.parse_fuel_never_exhausted. Qed.
Theorem C05_asset_from_archive_no_panic : forall a k, AssetBin.from_archive a <> Panic k.
Proof. exact RecsTotal.AssetT.from_archive_no_panic. Qed.
Theorem C05_asset_from_archive_fuel_suffices : forall a, AssetBin.from_archive a <> Err EOutOfFuel.
Proof. exact RecsTotal.AssetT.from_archive_fuel_never_exhausted. Qed.
(* the read-until-malformed loop always ends with the specs read so far: only an archive without the 4-byte header word is rejected *)
Theorem C05_asset_from_archive_ok_iff : forall a, (exists b, AssetBin.from_archive a = Ok b) <-> 4 <= size a.
Proof. exact RecsTotal.AssetT.from_archive_ok_iff. Qed.
(* one record consumes at least 8 bytes (flag bytes + name cell) and everything its flags announce lies inside the data (a record
   announcing more is rejected - and ends the loop); flags[4..6] are only indexed when 8 flag bytes were read *)
Theorem C05_asset_from_stream_advances : forall a p sp p',
  AssetBin.from_stream a p = Ok (sp, p') -> p + 8 <= p' <= size a.
Proof. exact RecsTotal.AssetT.from_stream_advances. Qed.
Theorem C05_asset_from_stream_no_panic : forall a p k, AssetBin.from_stream a p <> Panic k.
Proof. exact RecsTotal.AssetT.from_stream_no_panic. Qed.
(* EVERY asset-binary value serializes without panic in both modes, in particular anything accepted *)
Theorem C05_asset_serialize_no_panic : forall m b k, AssetBin.serialize m b <> Panic k.
Proof. exact RecsTotal.AssetT.serialize_no_panic. Qed.
Theorem C05_asset_reserialize_no_panic : forall f b m k, AssetBin.parse f = Ok b -> AssetBin.serialize m b <> Panic k.
Proof. exact RecsTotal.AssetT.reserialize_no_panic. Qed.
