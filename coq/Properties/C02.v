(* C02 - Bin archive serialization is canonical, deterministic and byte-stable.
   Model: Model/BinFormat.v (serialize; repaired code 0360b89: big-endian label order breaks ties by
   address).  HashMap iteration order = the order of the association lists; "fresh hash state" and
   "any order of API calls" are the universally quantified permutations / lookup-equal maps below.
   Tied to src/bin_archive.rs by `./check C02` (shuffled API histories, fresh processes, an independent
   canonical writer). *)
From Coq Require Import List NArith ZArith Bool Permutation.
From Mila Require Import Lib.Bytes Lib.Machine Model.BinArchive Model.BinFormat Proofs.SortLemmas Proofs.BinDeterminism Proofs.BinFormatSpec Proofs.BinCanonical.
Import ListNotations.
Local Open Scope N_scope.

(* THE SORT KEY.  The library orders the label table of a big-endian archive by the names as Rust Strings - the
   Unicode scalar values of the DECODED names (labels.sort_by(|a, b| a.1.cmp(b.1).then(a.0.cmp(b.0))) on Vec<String>),
   then by address.  The model holds the Shift-JIS ENCODED names, and byte order is a different order (82 A0 = U+3042
   sorts before 83 BF = U+03B1 as bytes, after it as a String: C02_example_key_matters).  So serialize_k and canonical
   take the key function  kf : encoded name -> list of numbers compared  as a parameter (Model/BinFormat.v name_key);
   the library is the instance kf = "scalars of the decoded name", which ./check C02 passes to the extracted model
   for every name of every big-endian case (case-line group K, computed by the library's own decoder), without any
   restriction on the names.  Nothing about the Shift-JIS table is assumed: the theorems below hold for EVERY kf;
   where the addresses are not known to be distinct they need kf to be injective on the names of the archive
   ([key_injective_on], Proofs/BinDeterminism.v) - the decoder is injective on lossless names (A-codec). *)

(* whatever order the four hash maps are iterated in, the image is the same - for every key function (the
   addresses of the label map are distinct, which makes "keys, then address" a total order on its entries) *)
Theorem C02_serialize_order_independent : forall kf m a a',
  same_content a a' ->
  NoDup (map fst (a_text a)) -> NoDup (map fst (a_labels a)) -> NoDup (map fst (a_cstrs a)) ->
  NoDup (map fst (a_ptrs a) ++ concat (map snd (a_cstrs a))) ->
  serialize_k kf m a = serialize_k kf m a'.
Proof. exact serialize_order_independent. Qed.

(* archives with equal content - answering every lookup alike, however they were built -
   serialize to identical bytes (or fail alike) *)
Theorem C02_deterministic : forall kf m a a',
  maps_are_maps a -> maps_are_maps a' -> same_observations a a' -> serialize_k kf m a = serialize_k kf m a'.
Proof. exact serialize_deterministic. Qed.

(* the sort underlying every table is insensitive to the order of its input *)
Theorem C02_sort_order_insensitive : forall {V} (l l' : list (N * V)),
  NoDup (map fst l) -> Permutation l l' -> isort key_leb l = isort key_leb l'.
Proof. intros V. exact (@isort_key_perm_invariant V). Qed.
Theorem C02_label_order_insensitive : forall kf e (l l' : list (N * list bytes)),
  NoDup (map fst l) -> Permutation l l' -> isort (label_leb kf e) l = isort (label_leb kf e) l'.
Proof. exact isort_labels_perm_invariant. Qed.
(* the same for a list of (address, bucket) entries with possibly repeated addresses, when the key function is
   injective on the names that occur *)
Theorem C02_label_order_insensitive_injective : forall kf (l l' : list (N * list bytes)),
  key_injective_on kf (label_names_of l) -> Permutation l l' ->
  isort (label_leb_be_k kf) l = isort (label_leb_be_k kf) l'.
Proof. exact isort_labels_be_perm_invariant_inj. Qed.
(* a little-endian image does not depend on the key function at all *)
Theorem C02_little_endian_ignores_key : forall kf kf' m a, a_endian a = LE -> serialize_k kf m a = serialize_k kf' m a.
Proof. exact serialize_k_LE. Qed.

(* serialize produces exactly the canonical image of the content.  [canonical] (Proofs/BinCanonical.v) is
   written from the property text, without hash maps or pool threading: labels by address (LE) or by
   the keys of the names, then address (BE); text section = de-duplicated list (label names in emission order,
   then strings in first-use order), offsets by position; pointer table = internal pointers ascending, then string
   cells grouped by string in first-use order, each group ascending; header totals computed from the
   parts.  The sorted association lists ARE the content (C02_sort_order_insensitive).
   Hypothesis on the key function: injective on the label names of the archive (explicit: two different names
   with equal keys on one repeated address could be listed in either order).  When the label addresses are
   distinct - every archive the API can build - no property of kf is needed: C02_serialize_is_canonical_maps.
   No size hypothesis: serialize and [canonical] both reject a content whose image would exceed the 32-bit sizes of the format
   (u32::MAX bytes; fix 524d15f, finding F25) with the same error, and below that bound no header field is truncated.
   (The hypothesis on the string cells says they are 32-bit addresses - true of every cell inside data shorter than 4 GiB.) *)
Theorem C02_serialize_is_canonical : forall kf m a,
  key_injective_on kf (label_names_of (a_labels a)) ->
  a_cstrs a = [] ->
  Forall (fun p => fst p < U32) (a_text a) ->
  serialize_k kf m a =
    canonical kf (a_endian a) (a_data a) (isort key_leb (a_ptrs a)) (isort key_leb (a_text a)) (isort key_leb (a_labels a)).
Proof. exact serialize_is_canonical_inj. Qed.
Theorem C02_serialize_is_canonical_maps : forall kf m a,
  NoDup (map fst (a_labels a)) ->
  a_cstrs a = [] ->
  Forall (fun p => fst p < U32) (a_text a) ->
  serialize_k kf m a =
    canonical kf (a_endian a) (a_data a) (isort key_leb (a_ptrs a)) (isort key_leb (a_text a)) (isort key_leb (a_labels a)).
Proof. exact serialize_is_canonical_maps. Qed.

(* the reviewers' witness: big-endian, label "\u{3042}" (82 A0) on address 0 and "\u{3b1}" (83 BF) on address 4.  With the
   decoded scalars as keys the image is the one the library writes - label table (4, 0), (0, 3), names 83 BF 00 82 A0 00
   (corpus/C02/cases.txt runs exactly this case against /repo); with the encoded bytes as keys (the model before the
   key function was introduced) the two entries come out in the other order *)
Definition ex_key : name_key := fun b =>
  if bytes_eqb b [130; 160] then [12354] else if bytes_eqb b [131; 191] then [945] else b.
Definition ex_witness : archive :=
  {| a_data := zeros 8; a_text := []; a_ptrs := []; a_labels := [(0, [[130; 160]]); (4, [[131; 191]])]; a_cstrs := []; a_endian := BE |}.
Example C02_example_key_matters :
  serialize_k ex_key Checked ex_witness =
    Ok [0;0;0;62; 0;0;0;8; 0;0;0;0; 0;0;0;2; 0;0;0;0;0;0;0;0;0;0;0;0;0;0;0;0;  0;0;0;0;0;0;0;0;
        0;0;0;4; 0;0;0;0;  0;0;0;0; 0;0;0;3;  131;191;0; 130;160;0]
  /\ serialize_k key_bytes Checked ex_witness =
    Ok [0;0;0;62; 0;0;0;8; 0;0;0;0; 0;0;0;2; 0;0;0;0;0;0;0;0;0;0;0;0;0;0;0;0;  0;0;0;0;0;0;0;0;
        0;0;0;0; 0;0;0;0;  0;0;0;4; 0;0;0;3;  130;160;0; 131;191;0]
  /\ key_injective_on ex_key (label_names_of (a_labels ex_witness))
  /\ serialize_k ex_key Checked ex_witness =
     canonical ex_key BE (zeros 8) [] [] [(0, [[130; 160]]); (4, [[131; 191]])].
Proof.
  split; [vm_compute; reflexivity|]. split; [vm_compute; reflexivity|]. split; [|vm_compute; reflexivity].
  intros n n' H H'. cbn in H, H'. destruct H as [<-|[<-|[]]]; destruct H' as [<-|[<-|[]]]; vm_compute; congruence.
Qed.

(* non-vacuity: the finding F2 shape - a big-endian archive with the same label on two addresses,
   listed in both orders *)
Example C02_example :
  let a := {| a_data := zeros 8; a_text := [(4, [65])]; a_ptrs := [(0, 8)]; a_labels := [(0, [[76]]); (4, [[76]])];
              a_cstrs := []; a_endian := BE |} in
  let a' := {| a_data := zeros 8; a_text := [(4, [65])]; a_ptrs := [(0, 8)]; a_labels := [(4, [[76]]); (0, [[76]])];
               a_cstrs := []; a_endian := BE |} in
  maps_are_maps a /\ maps_are_maps a' /\ same_observations a a' /\ exists f, serialize_k key_bytes Checked a = Ok f /\ serialize_k key_bytes Checked a' = Ok f.
Proof.
  cbn zeta. split; [|split; [|split]].
  - repeat split; cbn; repeat constructor; cbn; intuition discriminate.
  - repeat split; cbn; repeat constructor; cbn; intuition discriminate.
  - repeat split; intros k; cbn [a_labels am_get]; destruct (N.eqb_spec k 0); destruct (N.eqb_spec k 4); try reflexivity; congruence.
  - vm_compute. eexists. split; reflexivity.
Qed.

(* ---- third sentence: "parsing then re-serializing any canonical file reproduces it byte for byte" ----
   (review r1, C02-2/3: the statement was proved in Proofs/BinReserialize.v but not listed - hence not audited - here) *)
From Mila Require Import Proofs.BinSerializeConforms Proofs.BinReserialize Proofs.BinCanonicalFile.

(* a file written by serialize (either arithmetic profile m), parsed, serializes (either profile m') to the same bytes.
   [wf_archive]: C01's domain (Properties/C01.v); no size bound - a successful serialize IS the bound (fix 524d15f);
   no pending c-strings: the property speaks of canonical files,
   and an archive with pending c-strings is not what its own image parses to (the pool becomes data, C01). *)
Theorem C02_reserialize_identity : forall kf m m' a f a',
  wf_archive a -> a_cstrs a = [] ->
  serialize_k kf m a = Ok f -> from_bytes (a_endian a) f = Ok a' -> serialize_k kf m' a' = Ok f.
Proof. exact reserialize_identity. Qed.
(* ... and so does every archive that answers every lookup like the parsed one (e.g. one rebuilt through the API) *)
Theorem C02_reserialize_identity_lookups : forall kf m m' a f a' a'',
  wf_archive a -> a_cstrs a = [] ->
  serialize_k kf m a = Ok f -> from_bytes (a_endian a) f = Ok a' ->
  maps_are_maps a'' -> same_observations a' a'' -> serialize_k kf m' a'' = Ok f.
Proof. exact reserialize_identity_lookups. Qed.
(* the wording of the property: ANY canonical file - a byte string f that is the canonical image of a well-formed content
   (given as an archive record without pending c-strings; [canonical] is the independent writer of C02_serialize_is_canonical) -
   parses, and the parsed archive serializes to f again.  No size hypothesis: a canonical image exists only below 4 GiB. *)
Theorem C02_canonical_file_reserializes : forall kf a f,
  wf_archive a -> a_cstrs a = [] ->
  canonical kf (a_endian a) (a_data a) (isort key_leb (a_ptrs a)) (isort key_leb (a_text a)) (isort key_leb (a_labels a)) = Ok f ->
  exists a', from_bytes (a_endian a) f = Ok a' /\ forall m', serialize_k kf m' a' = Ok f.
Proof. exact canonical_file_reserializes. Qed.

(* literal bytes (review r1, C02-4: both sides of C02_serialize_is_canonical share helpers, so pin them against a file written
   out by hand): big-endian, 8 data bytes, pointer 0 -> 8, string "A" at 4, labels L,M on 0 and M on 4 (hash order: 4 first).
   header 78 / 8 / 2 pointers / 3 labels; cell 0 = 8, cell 4 = 40 + 4 (text section starts at 8 + 2*4 + 3*8 = 40, "A" at offset 4);
   pointer table 0, 4; label table by name then address (0,"L") (0,"M") (4,"M") with the name M stored once; text L M A. *)
Definition ex_canonical_file : bytes :=
  [0;0;0;78; 0;0;0;8; 0;0;0;2; 0;0;0;3; 0;0;0;0; 0;0;0;0; 0;0;0;0; 0;0;0;0;
   0;0;0;8; 0;0;0;44;
   0;0;0;0; 0;0;0;4;
   0;0;0;0; 0;0;0;0;  0;0;0;0; 0;0;0;2;  0;0;0;4; 0;0;0;2;
   76;0; 77;0; 65;0].
Example C02_example_literal :
  let a := {| a_data := zeros 8; a_text := [(4, [65])]; a_ptrs := [(0, 8)]; a_labels := [(4, [[77]]); (0, [[76]; [77]])];
              a_cstrs := []; a_endian := BE |} in
  serialize Checked a = Ok ex_canonical_file /\
  canonical key_bytes BE (zeros 8) [(0, 8)] [(4, [65])] [(0, [[76]; [77]]); (4, [[77]])] = Ok ex_canonical_file /\
  (a' <- from_bytes BE ex_canonical_file ;; serialize Wrapping a') = Ok ex_canonical_file.
Proof. vm_compute. repeat split. Qed.
