(* C12 - Layered filesystem: top layer wins, writes stay on top, read-after-write.
   Model: Model/LayeredFS.v (tied to src/layered_filesystem.rs by `./check C12`: histories on real temp
   directories, every layer walked after every call; the configuration table exhaustively).
   The compression codec is a parameter: every theorem below holds for ALL functions
   [compress decompress : cfmt -> bytes -> outcome bytes]; read-after-write is stated relative to the
   round-trip law [forall f b c, dom f b -> compress f b = Ok c -> decompress f c = Ok b], which is what
   C08_library_round_trip / C09_library_round_trip provide for the LZ10 / LZ13 models (see notes/fs.md).

   Not carried by these theorems (assumption A-fs): that std::fs, Path::join, normpath and glob behave like
   the tree functions l_* of the model (symlinks, permissions, non-UTF-8 names, concurrent modification,
   I/O errors other than file/directory conflicts are outside the model); reached only by the correspondence.

   Statement discipline: [C12_write_fail] is weaker than DESIGN's "fs_write = Err -> S' = S" because that
   is false of the code: for a path with a trailing '/' the missing ancestor directories stay created in
   the top layer when the final write fails (observed on the real library; the property text does not
   forbid it - lower layers are untouched).  The exact behaviour is stated instead. *)
From Coq Require Import List NArith Bool Arith.
From Mila Require Import Lib.Bytes Lib.Machine Model.Localize Proofs.LocalizeProofs Model.LayeredFS
  Proofs.LayeredFSBase Proofs.LayeredFSStack Proofs.LayeredFSList Proofs.LayeredFSWf.
From Mila Require Import Model.LZCore Model.LZ10 Model.LZ11 Model.LZSpec Model.LZDecode Proofs.LayeredFSCodec.
Import ListNotations.
Local Open Scope N_scope.

(* ---- the configuration table, written from the property's words ---- *)
Inductive game_spec := Unsupported | Supported (c : cfmt) (suffixes : list str) (e : endian) (t : tfmt) (lz : game).
Definition dot_cmp : str := [46; 99; 109; 112].
Definition dot_cms : str := [46; 99; 109; 115].
Definition dot_lz : str := [46; 108; 122].
Definition spec_game (g : fsgame) : game_spec :=
  match g with
  | FE9 => Supported LZ10 [dot_cmp; dot_cms] BE ShiftJIS GFE9
  | FE10 => Supported LZ10 [dot_cmp; dot_cms] BE ShiftJIS GFE10
  | FE11 | FE12 => Unsupported
  | FE13 => Supported LZ13 [dot_lz] LE Unicode GFE13
  | FE14 => Supported LZ13 [dot_lz] LE Unicode GFE14
  | FE15 => Supported LZ13 [dot_lz] LE Unicode GFE15
  end.

(* finite: 7 games; no layers is an error whatever the game *)
Theorem C12_config : forall ls l g,
  fs_new ls l g =
    match ls with
    | [] => FErr ENoLayers
    | _ => match spec_game g with
           | Unsupported => FErr EUnsupportedGame
           | Supported c _ e t lz => FOk (mkFs ls (mkConfig c lz e t) l)
           end
    end.
Proof. intros ls l g. destruct ls; [reflexivity|]. destruct g; reflexivity. Qed.

(* a name is compressed iff it ends with one of the game's suffixes *)
Theorem C12_compressed_names : forall g c sufs e t lz p,
  spec_game g = Supported c sufs e t lz ->
  (is_compressed c p = true <-> exists suf a, In suf sufs /\ p = a ++ suf).
Proof.
  intros g c sufs e t lz p H. unfold is_compressed. rewrite existsb_exists.
  assert (E : forall suf, In suf (suffixes c) <-> In suf sufs).
  { destruct g; cbn in H; try discriminate; injection H as <- <- _ _ _; cbn; unfold dot_cmp, dot_cms, dot_lz; tauto. }
  split.
  - intros (suf & Hin & Hs). apply ends_with_spec in Hs. destruct Hs as (a & ->). exists suf, a. split; [apply E; exact Hin | reflexivity].
  - intros (suf & a & Hin & ->). exists suf. split; [apply E; exact Hin | apply ends_with_spec; eauto].
Qed.

Section Codec.
  Variable compress decompress : cfmt -> bytes -> outcome bytes.

  (* read returns the (decoded) file of the HIGHEST layer that holds a file at the addressed location;
     a directory of that name in a higher layer does not shadow a file below (l_is_file is false on it) *)
  Theorem C12_read_top_wins : forall S p loc s a r,
    fs_addr S p loc = FOk (s, a) ->
    (fs_read decompress S p loc = r /\ r <> FErr ENotFound <->
     exists i L raw, nth_error (layers S) i = Some L /\ l_read L a = Some raw /\
                     (forall j L', (i < j)%nat -> nth_error (layers S) j = Some L' -> l_is_file L' a = false) /\
                     decode_by_name decompress S p raw = r).
  Proof. exact (read_top_wins decompress). Qed.

  Theorem C12_read_not_found : forall S p loc s a,
    fs_addr S p loc = FOk (s, a) ->
    (fs_read decompress S p loc = FErr ENotFound <-> forall L, In L (layers S) -> l_is_file L a = false).
  Proof. exact (read_not_found decompress). Qed.

  (* whatever a write returns: configuration, language, number of layers and ALL layers but the last are unchanged *)
  Theorem C12_write_lower_untouched : forall S p b loc S' r,
    fs_write compress S p b loc = (S', r) ->
    conf S' = conf S /\ lng S' = lng S /\ length (layers S') = length (layers S) /\
    removelast (layers S') = removelast (layers S).
  Proof. exact (write_lower_untouched compress). Qed.

  (* a successful write: the top layer holds File (encoded payload) at the addressed location p', directories at
     p's ancestors, and agrees with the old top layer everywhere else (existing ancestors included) *)
  Theorem C12_write_top_only : forall S p b loc S',
    fs_write compress S p b loc = (S', FOk tt) ->
    exists s pp c, fs_addr S p loc = FOk (s, (pp, false)) /\ encode_by_name compress S p b = FOk c /\ pp <> [] /\
      layers S <> [] /\
      let top := last (layers S) [] in let top' := last (layers S') [] in
      l_get top' pp = Some (File c) /\
      (forall q, In q (proper_prefixes pp) -> l_get top' q = Some Dir) /\
      (forall q, q <> pp -> ~ (In q (proper_prefixes pp) /\ l_get top q = None) -> l_get top' q = l_get top q) /\
      l_get top pp <> Some Dir /\ (forall q, In q (proper_prefixes pp) -> is_file_at top q = false).
  Proof. exact (write_ok_top compress). Qed.

  (* a failed write changes nothing - except that missing ancestor directories may stay created in the top layer
     when the path ends in '/' (or the target is a directory whose ancestors are missing, which a well-formed layer excludes) *)
  Theorem C12_write_fail : forall S p b loc S' r,
    fs_write compress S p b loc = (S', r) -> r <> FOk tt ->
    S' = S \/
    (exists s pp tr, fs_addr S p loc = FOk (s, (pp, tr)) /\
       let top := last (layers S) [] in let top' := last (layers S') [] in
       (tr = true \/ l_get top pp = Some Dir) /\
       forall q, l_get top' q = l_get top q \/
                 (In q (proper_prefixes pp) /\ l_get top q = None /\ l_get top' q = Some Dir)).
  Proof. exact (write_fail_top compress). Qed.

  (* on well-formed layers (an invariant, below) a failed write of a path WITHOUT trailing '/' changes nothing *)
  Theorem C12_write_fail_unchanged : forall S p b loc S' r s pp,
    wf_fs S -> fs_addr S p loc = FOk (s, (pp, false)) ->
    fs_write compress S p b loc = (S', r) -> r <> FOk tt -> S' = S.
  Proof. exact (fs_write_fail_wf compress). Qed.

  (* layers stay directory trees (no duplicate entries, plain names, every ancestor of an entry is a directory)
     along every history of operations *)
  Theorem C12_wf_invariant : forall os S, wf_fs S -> wf_fs (fs_run compress decompress S os).
  Proof. exact (fs_run_wf compress decompress). Qed.

  Theorem C12_create_dir_top_only : forall S p loc S' r,
    fs_create_dir S p loc = (S', r) ->
    conf S' = conf S /\ lng S' = lng S /\ removelast (layers S') = removelast (layers S) /\
    (r <> FOk tt -> S' = S) /\
    (r = FOk tt -> exists s a, fs_addr S p loc = FOk (s, a) /\
        let top := last (layers S) [] in let top' := last (layers S') [] in
        (forall q, In q (prefixes (fst a)) -> l_get top' q = Some Dir) /\
        (forall q, ~ In q (prefixes (fst a)) -> l_get top' q = l_get top q) /\
        (forall q, l_get top q <> None -> l_get top' q = l_get top q)).
  Proof. exact create_dir_top_only. Qed.

  (* read after write, for EVERY codec satisfying the round-trip law on [dom] (LZ10/LZ13: |b| < 2^24) *)
  Theorem C12_read_after_write : forall (dom : cfmt -> bytes -> Prop),
    (forall f b c, dom f b -> compress f b = Ok c -> decompress f c = Ok b) ->
    forall S p b loc S',
    fs_write compress S p b loc = (S', FOk tt) -> dom (c_comp (conf S)) b ->
    fs_read decompress S' p loc = FOk b.
  Proof. exact (read_after_write compress decompress). Qed.

  (* ... and the existence queries and resolve then find it in the top layer *)
  Theorem C12_queries_after_write : forall S p b loc S',
    fs_write compress S p b loc = (S', FOk tt) ->
    fs_file_exists S' p loc = FOk true /\ fs_exists S' p loc = FOk true /\
    exists s, fs_resolve S' p loc = FOk (Some (length (layers S') - 1, s))%nat.
  Proof. exact (queries_after_write compress decompress). Qed.

  (* the stored bytes are the codec's output for names with the compressed suffix, the payload itself otherwise *)
  Theorem C12_stored_form : forall S p b,
    encode_by_name compress S p b =
      if is_compressed (c_comp (conf S)) p then lift_codec (compress (c_comp (conf S)) b) else FOk b.
  Proof. reflexivity. Qed.
End Codec.

(* exists / file_exists / directory_exists / resolve: the same top-down search over the same addressed location *)
Theorem C12_queries_same_search : forall S p loc s a,
  fs_addr S p loc = FOk (s, a) ->
  fs_exists S p loc = FOk (existsb (fun L => l_exists L a) (layers S)) /\
  fs_file_exists S p loc = FOk (existsb (fun L => l_is_file L a) (layers S)) /\
  fs_directory_exists S p loc = FOk (existsb (fun L => l_is_dir L a) (layers S)) /\
  fs_resolve S p loc = FOk (match search_top (fun L => l_exists L a) (layers S) with
                            | Some (i, _) => Some (i, s) | None => None end).
Proof.
  intros S p loc s a H. repeat split.
  - exact (fs_exists_spec S p s loc a H).
  - exact (fs_file_exists_spec S p s loc a H).
  - exact (fs_directory_exists_spec S p s loc a H).
  - exact (fs_resolve_spec S p s loc a H).
Qed.

(* what "the answer of the highest layer satisfying the predicate" means *)
Theorem C12_search_top_spec : forall P ls i L,
  search_top P ls = Some (i, L) <->
  nth_error ls i = Some L /\ P L = true /\ (forall j L', (i < j)%nat -> nth_error ls j = Some L' -> P L' = false).
Proof. exact search_top_some. Qed.

(* the typed helpers are the byte-level read / write composed with the codec configured for the game *)
Section Typed.
  Variable compress decompress : cfmt -> bytes -> outcome bytes.
  Variables BinA TextA ArcA Tex : Type.
  Variable parse_bin : endian -> bytes -> outcome BinA.
  Variable parse_text : tfmt -> endian -> bytes -> outcome TextA.
  Variable parse_arc parse_fe9_arc : bytes -> outcome ArcA.
  Variable parse_tex : N -> bytes -> outcome Tex.
  Variable ser_bin : BinA -> outcome bytes.
  Variable ser_text : TextA -> outcome bytes.

  Theorem C12_typed_helpers : forall ls l g S c sufs e t lz p loc,
    fs_new ls l g = FOk S -> spec_game g = Supported c sufs e t lz ->
    fs_read_archive decompress BinA parse_bin S p loc = fbind (fs_read decompress S p loc) (fun b => lift_parse (parse_bin e b)) /\
    fs_read_text_archive decompress TextA parse_text S p loc = fbind (fs_read decompress S p loc) (fun b => lift_parse (parse_text t e b)) /\
    fs_read_arc decompress ArcA parse_arc S p loc = fbind (fs_read decompress S p loc) (fun b => lift_parse (parse_arc b)) /\
    fs_read_fe9_arc decompress ArcA parse_fe9_arc S p loc = fbind (fs_read decompress S p loc) (fun b => lift_parse (parse_fe9_arc b)) /\
    (forall k, fs_read_textures decompress Tex parse_tex k S p loc = fbind (fs_read decompress S p loc) (fun b => lift_parse (parse_tex k b))) /\
    (forall a, fs_write_archive compress BinA ser_bin S p a loc =
       match lift_parse (ser_bin a) with FOk b => fs_write compress S p b loc | FErr x => (S, FErr x) | FPanic k => (S, FPanic k) end) /\
    (forall a, fs_write_text_archive compress TextA ser_text S p a loc =
       match lift_parse (ser_text a) with FOk b => fs_write compress S p b loc | FErr x => (S, FErr x) | FPanic k => (S, FPanic k) end).
  Proof.
    intros ls l g S c sufs e t lz p loc Hn Hs. rewrite C12_config in Hn. destruct ls as [|L0 ls]; [discriminate|].
    rewrite Hs in Hn. injection Hn as <-. repeat split.
  Qed.
End Typed.

(* ---- non-vacuity ---- *)
(* two layers; the lower holds the file d/a, the upper a DIRECTORY d/a: read still returns the lower file;
   a write of "d/x.lz" for FE13 stores the codec's output in the upper layer only and reads back *)
Definition ex_lower : layer := [([[100]], Dir); ([[100]; [97]], File [1; 2])].
Definition ex_upper : layer := [([[100]], Dir); ([[100]; [97]], Dir)].
Definition ex_fs : fsys := mkFs [ex_lower; ex_upper] (mkConfig LZ13 GFE13 LE Unicode) EnglishNA.
Definition ex_comp (f : cfmt) (b : bytes) : outcome bytes := Ok (19 :: b).
Definition ex_decomp (f : cfmt) (b : bytes) : outcome bytes := match b with 19 :: r => Ok r | _ => Err EInvalidInput end.
Example C12_example_shadow : fs_read ex_decomp ex_fs [100; 47; 97] false = FOk [1; 2].
Proof. vm_compute. reflexivity. Qed.
Example C12_example_write :
  let '(S', r) := fs_write ex_comp ex_fs [100; 47; 120; 46; 108; 122] [7; 8] true in
  r = FOk tt /\ nth_error (layers S') 0 = Some ex_lower /\
  l_get (last (layers S') []) [[100]; [69]; [120; 46; 108; 122]] = Some (File [19; 7; 8]) /\
  fs_read ex_decomp S' [100; 47; 120; 46; 108; 122] true = FOk [7; 8].
Proof. vm_compute. repeat split. Qed.
Example C12_example_round_trip_hyp : forall f b c, True -> ex_comp f b = Ok c -> ex_decomp f c = Ok b.
Proof. intros f b c _ H. injection H as <-. reflexivity. Qed.
(* a failed write with a trailing '/' leaves the created ancestor behind *)
Example C12_example_failed_write :
  let '(S', r) := fs_write ex_comp ex_fs [110; 47; 102; 47] [7] false in
  r = FErr EWrite /\ l_get (last (layers S') []) [[110]] = Some Dir /\ l_get (last (layers ex_fs) []) [[110]] = None.
Proof. vm_compute. repeat split. Qed.

(* ---- the codec half: the section variables instantiated with the models of mila's two codecs ---- *)
(* the round-trip law holds for the real codecs (C08_library_round_trip, C09_library_round_trip, C09_empty_input),
   on every byte string shorter than 16 MiB - the empty payload included - whatever profile wrote and reads *)
Theorem C12_real_codec_round_trip : forall mc md f b c,
  wfb b -> lenN b < 2 ^ 24 -> real_compress mc f b = Ok c -> real_decompress md f c = Ok b.
Proof. intros mc md f b c Hw Hn. exact (real_codec_round_trip mc md f b c (conj Hw Hn)). Qed.

(* read after write with LZ10 (FE9/FE10) and LZ13 (FE13-FE15) *)
Theorem C12_read_after_write_real : forall mc md S p b loc S',
  fs_write (real_compress mc) S p b loc = (S', FOk tt) -> wfb b -> lenN b < 2 ^ 24 ->
  fs_read (real_decompress md) S' p loc = FOk b.
Proof. exact real_read_after_write. Qed.

(* the stored file: a valid compressed stream of the payload for a name with the game's suffix (LZ10: the strict
   parser accepts it with the payload's size and its tokens expand to the payload; LZ13: 0x13 wrapper + such an LZ11
   stream, the fixed 12-byte form for the empty payload), the payload itself otherwise *)
Theorem C12_stored_stream_real : forall mc S p b loc S',
  fs_write (real_compress mc) S p b loc = (S', FOk tt) -> wfb b -> lenN b < 2 ^ 24 ->
  exists s pp c, fs_addr S p loc = FOk (s, (pp, false)) /\
    l_get (last (layers S') []) pp = Some (File c) /\
    if is_compressed (c_comp (conf S)) p then valid_stream (c_comp (conf S)) b c else c = b.
Proof. exact real_write_stored. Qed.

(* the codec never makes a write of a payload below 16 MiB fail *)
Theorem C12_encode_never_fails_real : forall mc S p b, lenN b < 2 ^ 24 ->
  exists c, encode_by_name (real_compress mc) S p b = FOk c.
Proof. exact real_encode_ok. Qed.

(* per game: codec, suffixes, and what the instantiated codec functions are *)
Theorem C12_codec_of_game : forall ls l g S, fs_new ls l g = FOk S ->
  match g with
  | FE9 | FE10 =>
    c_comp (conf S) = LayeredFS.LZ10 /\
    (forall p, is_compressed (c_comp (conf S)) p = orb (ends_with sfx_cms p) (ends_with sfx_cmp p)) /\
    (forall mc b, real_compress mc (c_comp (conf S)) b = Ok (compress10 b)) /\
    (forall md c, real_decompress md (c_comp (conf S)) c = lz10_decompress md c)
  | FE13 | FE14 | FE15 =>
    c_comp (conf S) = LayeredFS.LZ13 /\
    (forall p, is_compressed (c_comp (conf S)) p = ends_with sfx_lz p) /\
    (forall mc b, real_compress mc (c_comp (conf S)) b = compress13 mc b) /\
    (forall md c, real_decompress md (c_comp (conf S)) c = lz13_decompress md c)
  | FE11 | FE12 => False
  end.
Proof. exact real_codec_of_game. Qed.

(* everything together, per game *)
Theorem C12_read_after_write_by_game : forall mc md ls l g S p b loc S',
  fs_new ls l g = FOk S ->
  fs_write (real_compress mc) S p b loc = (S', FOk tt) -> wfb b -> lenN b < 2 ^ 24 ->
  fs_read (real_decompress md) S' p loc = FOk b /\
  exists s pp c, fs_addr S p loc = FOk (s, (pp, false)) /\ l_get (last (layers S') []) pp = Some (File c) /\
    match g with
    | FE9 | FE10 => if orb (ends_with sfx_cms p) (ends_with sfx_cmp p)
                    then valid_stream LayeredFS.LZ10 b c /\ lz10_decompress md c = Ok b else c = b
    | _ => if ends_with sfx_lz p then valid_stream LayeredFS.LZ13 b c /\ lz13_decompress md c = Ok b else c = b
    end.
Proof. exact real_read_after_write_by_game. Qed.

(* non-vacuity: FE10 writes "a.cmp" as an LZ10 stream, FE14 writes "a.lz" as a wrapped LZ11 stream; read back in the other profile *)
Example C12_example_real_fe10 :
  let S := mkFs [[]] (mkConfig LayeredFS.LZ10 GFE10 BE ShiftJIS) EnglishNA in
  let p := [97; 46; 99; 109; 112] in
  let b := [5; 5; 5; 5; 5; 5; 5; 5; 5; 5] in
  let '(S', r) := fs_write (real_compress Checked) S p b false in
  r = FOk tt /\ l_get (last (layers S') []) [p] = Some (File [0x10; 10; 0; 0; 0x20; 5; 5; 0x50; 1]) /\
  fs_read (real_decompress Wrapping) S' p false = FOk b.
Proof. exact real_example_fe10. Qed.
Example C12_example_real_fe14 :
  let S := mkFs [[]] (mkConfig LayeredFS.LZ13 GFE14 LE Unicode) EnglishNA in
  let p := [97; 46; 108; 122] in
  let b := [5; 5; 5; 5; 5; 5; 5; 5; 5; 5] in
  let '(S', r) := fs_write (real_compress Checked) S p b false in
  r = FOk tt /\ l_get (last (layers S') []) [p] = Some (File [0x13; 13; 0; 0; 0x11; 10; 0; 0; 0x20; 5; 5; 0x70; 1]) /\
  fs_read (real_decompress Wrapping) S' p false = FOk b.
Proof. exact real_example_fe14. Qed.
