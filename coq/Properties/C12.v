(* C12 - Layered filesystem: top layer wins, writes stay on top, read-after-write.
   Model: Model/LayeredFS.v (tied to src/layered_filesystem.rs by `./check C12`: histories on real temp
   directories, every layer walked after every call; the configuration table exhaustively).
   The compression codec is a parameter: every theorem below holds for ALL functions
   [compress decompress : cfmt -> bytes -> outcome bytes]; read-after-write is stated relative to the
   round-trip law [forall f b c, dom f b -> compress f b = Ok c -> decompress f c = Ok b], which is what
   C08_library_round_trip / C09_library_round_trip provide for the LZ10 / LZ13 models (see notes/fs.md).

   Not carried by these theorems (assumption A-fs): that std::fs, Path::join, normpath and glob behave like
   the tree functions l_* of the model (symlinks, permissions, non-UTF-8 names, concurrent modification,
   I/O errors other than file/directory conflicts are outside the model); reached only by the correspondence.
   Also outside (review r4, C12-4): the NAME LIMITS of a real file system.  [plain] / [plain_name] / [plainP] accept every
   non-empty component other than "." and ".." without '/', so the model (and [wf_layer]) admits components that contain
   NUL or are longer than NAME_MAX (255 bytes on the usual Unix file systems) and paths longer than PATH_MAX; the real
   write("a\0b") = WriteError(.. unexpected NUL byte), write(<300 x 'x'>) = WriteError(.. File name too long), where the
   model answers Ok.  These are "I/O errors other than file/directory conflicts": the success criteria below
   (C12_write_ok_iff, C12_create_dir_ok_iff) hold for components without NUL of at most 255 bytes (what the
   correspondence generates).

   Statement discipline: [C12_write_fail] is weaker than DESIGN's "fs_write = Err -> S' = S" because that
   is false of the code: for a path with a trailing '/' the missing ancestor directories stay created in
   the top layer when the final write fails (observed on the real library; the property text does not
   forbid it - lower layers are untouched).  The exact behaviour is stated instead. *)
From Coq Require Import List NArith Bool Arith.
From Mila Require Import Lib.Bytes Lib.Machine Model.Localize Proofs.LocalizeProofs Model.LayeredFS
  Proofs.LayeredFSBase Proofs.LayeredFSStack Proofs.LayeredFSList Proofs.LayeredFSWf.
From Mila Require Import Model.LZCore Model.LZ10 Model.LZ11 Model.LZSpec Model.LZDecode Proofs.LayeredFSCodec.
Import ListNotations.
Local Open Scope N_scope.

(* ---- the configuration table, written from the property's words ---- *)
Inductive game_spec := Unsupported | Supported (c : cfmt) (suffixes : list str) (e : endian) (t : tfmt) (lz : game).
Definition dot_cmp : str := [46; 99; 109; 112].
Definition dot_cms : str := [46; 99; 109; 115].
Definition dot_lz : str := [46; 108; 122].
Definition spec_game (g : fsgame) : game_spec :=
  match g with
  | FE9 => Supported LZ10 [dot_cmp; dot_cms] BE ShiftJIS GFE9
  | FE10 => Supported LZ10 [dot_cmp; dot_cms] BE ShiftJIS GFE10
  | FE11 | FE12 => Unsupported
  | FE13 => Supported LZ13 [dot_lz] LE Unicode GFE13
  | FE14 => Supported LZ13 [dot_lz] LE Unicode GFE14
  | FE15 => Supported LZ13 [dot_lz] LE Unicode GFE15
  end.

(* finite: 7 games; no layers is an error whatever the game *)
Theorem C12_config : forall ls l g,
  fs_new ls l g =
    match ls with
    | [] => FErr ENoLayers
    | _ => match spec_game g with
           | Unsupported => FErr EUnsupportedGame
           | Supported c _ e t lz => FOk (mkFs ls (mkConfig c lz e t) l)
           end
    end.
Proof. intros ls l g. destruct ls; [reflexivity|]. destruct g; reflexivity. Qed.

(* a name is compressed iff it ends with one of the game's suffixes *)
Theorem C12_compressed_names : forall g c sufs e t lz p,
  spec_game g = Supported c sufs e t lz ->
  (is_compressed c p = true <-> exists suf a, In suf sufs /\ p = a ++ suf).
Proof.
  intros g c sufs e t lz p H. unfold is_compressed. rewrite existsb_exists.
  assert (E : forall suf, In suf (suffixes c) <-> In suf sufs).
  { destruct g; cbn in H; try discriminate; injection H as <- <- _ _ _; cbn; unfold dot_cmp, dot_cms, dot_lz; tauto. }
  split.
  - intros (suf & Hin & Hs). apply ends_with_spec in Hs. destruct Hs as (a & ->). exists suf, a. split; [apply E; exact Hin | reflexivity].
  - intros (suf & a & Hin & ->). exists suf. split; [apply E; exact Hin | apply ends_with_spec; eauto].
Qed.

Section Codec.
  Variable compress decompress : cfmt -> bytes -> outcome bytes.

  (* read returns the (decoded) file of the HIGHEST layer that holds a file at the addressed location;
     a directory of that name in a higher layer does not shadow a file below (l_is_file is false on it) *)
  Theorem C12_read_top_wins : forall S p loc s a r,
    fs_addr S p loc = FOk (s, a) ->
    (fs_read decompress S p loc = r /\ r <> FErr ENotFound <->
     exists i L raw, nth_error (layers S) i = Some L /\ l_read L a = Some raw /\
                     (forall j L', (i < j)%nat -> nth_error (layers S) j = Some L' -> l_is_file L' a = false) /\
                     decode_by_name decompress S p raw = r).
  Proof. exact (read_top_wins decompress). Qed.

  Theorem C12_read_not_found : forall S p loc s a,
    fs_addr S p loc = FOk (s, a) ->
    (fs_read decompress S p loc = FErr ENotFound <-> forall L, In L (layers S) -> l_is_file L a = false).
  Proof. exact (read_not_found decompress). Qed.

  (* whatever a write returns: configuration, language, number of layers and ALL layers but the last are unchanged *)
  Theorem C12_write_lower_untouched : forall S p b loc S' r,
    fs_write compress S p b loc = (S', r) ->
    conf S' = conf S /\ lng S' = lng S /\ length (layers S') = length (layers S) /\
    removelast (layers S') = removelast (layers S).
  Proof. exact (write_lower_untouched compress). Qed.

  (* a successful write: the top layer holds File (encoded payload) at the addressed location p', directories at
     p's ancestors, and agrees with the old top layer everywhere else (existing ancestors included) *)
  Theorem C12_write_top_only : forall S p b loc S',
    fs_write compress S p b loc = (S', FOk tt) ->
    exists s pp c, fs_addr S p loc = FOk (s, (pp, false)) /\ encode_by_name compress S p b = FOk c /\ pp <> [] /\
      layers S <> [] /\
      let top := last (layers S) [] in let top' := last (layers S') [] in
      l_get top' pp = Some (File c) /\
      (forall q, In q (proper_prefixes pp) -> l_get top' q = Some Dir) /\
      (forall q, q <> pp -> ~ (In q (proper_prefixes pp) /\ l_get top q = None) -> l_get top' q = l_get top q) /\
      l_get top pp <> Some Dir /\ (forall q, In q (proper_prefixes pp) -> is_file_at top q = false).
  Proof. exact (write_ok_top compress). Qed.

  (* a failed write changes nothing - except that missing ancestor directories may stay created in the top layer
     when the path ends in '/' (or the target is a directory whose ancestors are missing, which a well-formed layer excludes) *)
  Theorem C12_write_fail : forall S p b loc S' r,
    fs_write compress S p b loc = (S', r) -> r <> FOk tt ->
    S' = S \/
    (exists s pp tr, fs_addr S p loc = FOk (s, (pp, tr)) /\
       let top := last (layers S) [] in let top' := last (layers S') [] in
       (tr = true \/ l_get top pp = Some Dir) /\
       forall q, l_get top' q = l_get top q \/
                 (In q (proper_prefixes pp) /\ l_get top q = None /\ l_get top' q = Some Dir)).
  Proof. exact (write_fail_top compress). Qed.

  (* on well-formed layers (an invariant, below) a failed write of a path WITHOUT trailing '/' changes nothing *)
  Theorem C12_write_fail_unchanged : forall S p b loc S' r s pp,
    wf_fs S -> fs_addr S p loc = FOk (s, (pp, false)) ->
    fs_write compress S p b loc = (S', r) -> r <> FOk tt -> S' = S.
  Proof. exact (fs_write_fail_wf compress). Qed.

  (* layers stay directory trees (no duplicate entries, plain names, every ancestor of an entry is a directory)
     along every history of operations *)
  Theorem C12_wf_invariant : forall os S, wf_fs S -> wf_fs (fs_run compress decompress S os).
  Proof. exact (fs_run_wf compress decompress). Qed.

  Theorem C12_create_dir_top_only : forall S p loc S' r,
    fs_create_dir S p loc = (S', r) ->
    conf S' = conf S /\ lng S' = lng S /\ removelast (layers S') = removelast (layers S) /\
    (r <> FOk tt -> S' = S) /\
    (r = FOk tt -> exists s a, fs_addr S p loc = FOk (s, a) /\
        let top := last (layers S) [] in let top' := last (layers S') [] in
        (forall q, In q (prefixes (fst a)) -> l_get top' q = Some Dir) /\
        (forall q, ~ In q (prefixes (fst a)) -> l_get top' q = l_get top q) /\
        (forall q, l_get top q <> None -> l_get top' q = l_get top q)).
  Proof. exact create_dir_top_only. Qed.

  (* read after write, for EVERY codec satisfying the round-trip law on [dom] (LZ10/LZ13: |b| < 2^24) *)
  Theorem C12_read_after_write : forall (dom : cfmt -> bytes -> Prop),
    (forall f b c, dom f b -> compress f b = Ok c -> decompress f c = Ok b) ->
    forall S p b loc S',
    fs_write compress S p b loc = (S', FOk tt) -> dom (c_comp (conf S)) b ->
    fs_read decompress S' p loc = FOk b.
  Proof. exact (read_after_write compress decompress). Qed.

  (* ... and the existence queries and resolve then find it in the top layer *)
  Theorem C12_queries_after_write : forall S p b loc S',
    fs_write compress S p b loc = (S', FOk tt) ->
    fs_file_exists S' p loc = FOk true /\ fs_exists S' p loc = FOk true /\
    exists s, fs_resolve S' p loc = FOk (Some (length (layers S') - 1, s))%nat.
  Proof. exact (queries_after_write compress decompress). Qed.

  (* the stored bytes are the codec's output for names with the compressed suffix, the payload itself otherwise.
     UNFOLDING LEMMA (proof: reflexivity): it restates the definition of [encode_by_name] for the reader and establishes
     nothing beyond "the model is written that way"; what ties it to the code is the correspondence (stored files are compared). *)
  Theorem C12_stored_form : forall S p b,
    encode_by_name compress S p b =
      if is_compressed (c_comp (conf S)) p then lift_codec (compress (c_comp (conf S)) b) else FOk b.
  Proof. reflexivity. Qed.
End Codec.

(* ---- WHEN write and create_dir succeed (review r4, C12-2) and what create_dir leaves unchanged (C12-7).
   Proofs/LayeredFSOk.v; derived from the definitions alone, no well-formedness needed.  Every other positive theorem of this
   file is conditional on "fs_write .. = (S', FOk tt)"; these say when that happens. ---- *)
From Mila Require Import Proofs.LayeredFSOk Proofs.LayeredFSOkReal Proofs.LayeredFSRunFrame.

(* the addressed location: the path string (loc = false) or its localisation (loc = true), parsed into plain components *)
Theorem C12_addr_spec : forall S p loc s a,
  fs_addr S p loc = FOk (s, a) <->
  (if loc then localize (c_loc (conf S)) (lng S) p = LOk s else s = p) /\ parse_path s = Some a.
Proof. exact fs_addr_iff. Qed.

Section WhenOk.
  Variable compress decompress : cfmt -> bytes -> outcome bytes.

  (* write succeeds IFF the path localizes (when asked to) to a modelled path WITHOUT trailing '/', the codec accepts the
     payload (it is only consulted for names with the game's compressed suffix), there is a layer, and in the TOP layer no
     proper ancestor of the target is a file and the target itself is not a directory (so it is not the layer root "").
     Lower layers play no role: a file in the way there does not block, a directory there does not help. *)
  Theorem C12_write_ok_iff : forall S p b loc,
    snd (fs_write compress S p b loc) = FOk tt <->
    exists s pp c, fs_addr S p loc = FOk (s, (pp, false)) /\ encode_by_name compress S p b = FOk c /\ layers S <> [] /\
      let top := last (layers S) [] in
      (forall q, In q (proper_prefixes pp) -> is_file_at top q = false) /\ l_get top pp <> Some Dir.
  Proof. exact (write_ok_iff compress). Qed.

  (* the return value in every case: localisation / path error first, then the codec's error, then NoWriteableLayers
     (unreachable after fs_new), then Ok or WriteError by the executable criterion [can_write] on the top layer *)
  Theorem C12_write_result : forall S p b loc,
    snd (fs_write compress S p b loc) =
      fbind (fs_addr S p loc) (fun sa =>
      fbind (encode_by_name compress S p b) (fun _ =>
      match layers S with
      | [] => FErr ENoWriteableLayers
      | _ => if can_write (last (layers S) []) (snd sa) then FOk tt else FErr EWrite
      end)).
  Proof. exact (write_result compress). Qed.
  Theorem C12_can_write_spec : forall L pp tr, can_write L (pp, tr) = true <->
    tr = false /\ (forall q, In q (proper_prefixes pp) -> is_file_at L q = false) /\ l_get L pp <> Some Dir.
  Proof. exact can_write_spec. Qed.

  (* create_dir succeeds IFF the path localizes to a modelled path (a trailing '/' and the root "" are fine), there is a
     layer, and in the TOP layer neither the target nor any ancestor is a file; otherwise IOError (or the path error) *)
  Theorem C12_create_dir_ok_iff : forall S p loc,
    snd (fs_create_dir S p loc) = FOk tt <->
    exists s pp tr, fs_addr S p loc = FOk (s, (pp, tr)) /\ layers S <> [] /\
      forall q, In q (prefixes pp) -> is_file_at (last (layers S) []) q = false.
  Proof. exact create_dir_ok_iff. Qed.
  Theorem C12_create_dir_result : forall S p loc,
    snd (fs_create_dir S p loc) =
      fbind (fs_addr S p loc) (fun sa =>
      match layers S with
      | [] => FPanic PIndex
      | _ => if can_create_dir (last (layers S) []) (snd sa) then FOk tt else FErr EIo
      end).
  Proof. exact create_dir_result. Qed.

  (* frame of create_dir (any path, localized or not, whatever it returns): every read and every file_exists query answers
     as before; what existed / was a directory still is.  (exists, directory_exists and listings may GAIN the created
     directories, resolve may move up to the top layer.)  Together with C12_create_dir_top_only this covers create_dir
     inside the histories of the property's quantifier. *)
  Theorem C12_create_dir_frame : forall S q l S' r, fs_create_dir S q l = (S', r) ->
    (forall p loc, fs_read decompress S' p loc = fs_read decompress S p loc) /\
    (forall p loc, fs_file_exists S' p loc = fs_file_exists S p loc) /\
    (forall p loc, fs_exists S p loc = FOk true -> fs_exists S' p loc = FOk true) /\
    (forall p loc, fs_directory_exists S p loc = FOk true -> fs_directory_exists S' p loc = FOk true).
  Proof. exact (create_dir_frame decompress). Qed.

  (* frame over the HISTORIES of the property's quantifier (fs_run: read / write / create_dir / queries / listings), any codec:
     [op_elsewhere S pp o] = o is not a write addressed to pp (create_dir calls and everything else are unrestricted); along such
     a history read p and file_exists p answer as before, and read-after-write survives it *)
  Theorem C12_op_elsewhere_is : forall S pp o,
    op_elsewhere S pp o <->
    match o with OWrite q _ l => forall s qq tr, fs_addr S q l = FOk (s, (qq, tr)) -> qq <> pp | _ => True end.
  Proof. intros S pp o. split; exact (fun H => H). Qed.       (* unfolding lemma *)
  Theorem C12_run_keeps_read : forall os S p loc s a,
    fs_addr S p loc = FOk (s, a) -> Forall (op_elsewhere S (fst a)) os ->
    fs_read decompress (fs_run compress decompress S os) p loc = fs_read decompress S p loc /\
    fs_file_exists (fs_run compress decompress S os) p loc = fs_file_exists S p loc.
  Proof. exact (fs_run_keeps_read compress decompress). Qed.
  Theorem C12_read_after_write_history : forall (dom : cfmt -> bytes -> Prop),
    (forall f b c, dom f b -> compress f b = Ok c -> decompress f c = Ok b) ->
    forall S p b loc S1 os,
    fs_write compress S p b loc = (S1, FOk tt) -> dom (c_comp (conf S)) b ->
    (forall s pp tr, fs_addr S p loc = FOk (s, (pp, tr)) -> Forall (op_elsewhere S pp) os) ->
    fs_read decompress (fs_run compress decompress S1 os) p loc = FOk b.
  Proof. exact (read_after_write_history compress decompress). Qed.
End WhenOk.

(* with the models of the real codecs, after fs_new, below 16 MiB: success depends on the path and the top layer only *)
Theorem C12_write_ok_iff_real : forall mc ls l g S p b loc, fs_new ls l g = FOk S -> lenN b < 2 ^ 24 ->
  (snd (fs_write (real_compress mc) S p b loc) = FOk tt <->
   exists s pp, fs_addr S p loc = FOk (s, (pp, false)) /\
     let top := last (layers S) [] in
     (forall q, In q (proper_prefixes pp) -> is_file_at top q = false) /\ l_get top pp <> Some Dir).
Proof. exact real_write_ok_iff. Qed.

(* non-vacuity, both directions.  Lower layer: FILE "f", directory "d"; top layer: directory "d", FILE "d/g".
   - "f/x": the file "f" in the LOWER layer does not block the write (the top layer gets a directory "f");
   - "d/g/x": through the top layer's file: WriteError, nothing changes;  "d": onto a directory: WriteError;  "": the root: WriteError;
   - "d/n/" (trailing '/'): WriteError;  create_dir "d/g/k": IOError;  create_dir "d/": Ok *)
Definition ok_lower : layer := [([[102]], File [1]); ([[100]], Dir)].
Definition ok_upper : layer := [([[100]], Dir); ([[100]; [103]], File [2])].
Definition ok_fs : fsys := mkFs [ok_lower; ok_upper] (mkConfig LZ13 GFE13 LE Unicode) EnglishNA.
Definition ok_id (f : cfmt) (b : bytes) : outcome bytes := Ok b.
Example C12_example_when_ok :
  snd (fs_write ok_id ok_fs [102; 47; 120] [7] false) = FOk tt /\
  fs_read ok_id (fst (fs_write ok_id ok_fs [102; 47; 120] [7] false)) [102] false = FOk [1] /\
  fs_write ok_id ok_fs [100; 47; 103; 47; 120] [7] false = (ok_fs, FErr EWrite) /\
  fs_write ok_id ok_fs [100] [7] false = (ok_fs, FErr EWrite) /\
  fs_write ok_id ok_fs [] [7] false = (ok_fs, FErr EWrite) /\
  snd (fs_write ok_id ok_fs [100; 47; 110; 47] [7] false) = FErr EWrite /\
  fs_create_dir ok_fs [100; 47; 103; 47; 107] false = (ok_fs, FErr EIo) /\
  snd (fs_create_dir ok_fs [100; 47] false) = FOk tt /\ snd (fs_create_dir ok_fs [] false) = FOk tt.
Proof. vm_compute. repeat split. Qed.
(* a history with create_dir: write "d/n" = [7]; create_dir "d/k/"; create_dir "d/n/x" (fails: through the file); write "f/x"; list; read "d/n" *)
Definition ok_history : list op :=
  [OCreateDir [100; 47; 107; 47] false; OCreateDir [100; 47; 110; 47; 120] false; OWrite [102; 47; 120] [9] false;
   OList [100] PAll false; OExists [100; 47; 107] false].
Example C12_example_history_create_dir :
  exists S1, fs_write ok_id ok_fs [100; 47; 110] [7] false = (S1, FOk tt) /\
  Forall (op_elsewhere ok_fs [[100]; [110]]) ok_history /\
  fs_read ok_id (fs_run ok_id ok_id S1 ok_history) [100; 47; 110] false = FOk [7] /\
  fs_exists (fs_run ok_id ok_id S1 ok_history) [100; 47; 107] false = FOk true.
Proof.
  eexists. split; [vm_compute; reflexivity|]. split; [|split; [vm_compute; reflexivity | vm_compute; reflexivity]].
  unfold ok_history. repeat constructor. unfold op_elsewhere. intros s qq tr H.
  assert (E : fs_addr ok_fs [102; 47; 120] false = FOk ([102; 47; 120], ([[102]; [120]], false))) by (vm_compute; reflexivity).
  rewrite E in H. injection H as _ <- _. discriminate.
Qed.

(* exists / file_exists / directory_exists / resolve: the same top-down search over the same addressed location *)
Theorem C12_queries_same_search : forall S p loc s a,
  fs_addr S p loc = FOk (s, a) ->
  fs_exists S p loc = FOk (existsb (fun L => l_exists L a) (layers S)) /\
  fs_file_exists S p loc = FOk (existsb (fun L => l_is_file L a) (layers S)) /\
  fs_directory_exists S p loc = FOk (existsb (fun L => l_is_dir L a) (layers S)) /\
  fs_resolve S p loc = FOk (match search_top (fun L => l_exists L a) (layers S) with
                            | Some (i, _) => Some (i, s) | None => None end).
Proof.
  intros S p loc s a H. repeat split.
  - exact (fs_exists_spec S p s loc a H).
  - exact (fs_file_exists_spec S p s loc a H).
  - exact (fs_directory_exists_spec S p s loc a H).
  - exact (fs_resolve_spec S p s loc a H).
Qed.

(* what "the answer of the highest layer satisfying the predicate" means *)
Theorem C12_search_top_spec : forall P ls i L,
  search_top P ls = Some (i, L) <->
  nth_error ls i = Some L /\ P L = true /\ (forall j L', (i < j)%nat -> nth_error ls j = Some L' -> P L' = false).
Proof. exact search_top_some. Qed.

(* the typed helpers are the byte-level read / write composed with the codec configured for the game.
   UNFOLDING LEMMA (C12_typed_helpers; proof: the configuration table + `repeat split`): the model's helpers are DEFINED as
   that composition, as the Rust helpers (layered_filesystem.rs:364-455) literally are; the only content is that the
   endianness / text format they pass are the ones of the specification table [spec_game].  The sentence of the property
   is carried by the model text + the correspondence stream typed-e2e, and by the C12_e2e_* round trips below. *)
Section Typed.
  Variable compress decompress : cfmt -> bytes -> outcome bytes.
  Variables BinA TextA ArcA Tex : Type.
  Variable parse_bin : endian -> bytes -> outcome BinA.
  Variable parse_text : tfmt -> endian -> bytes -> outcome TextA.
  Variable parse_arc parse_fe9_arc : bytes -> outcome ArcA.
  Variable parse_tex : N -> bytes -> outcome Tex.
  Variable ser_bin : BinA -> outcome bytes.
  Variable ser_text : TextA -> outcome bytes.

  Theorem C12_typed_helpers : forall ls l g S c sufs e t lz p loc,
    fs_new ls l g = FOk S -> spec_game g = Supported c sufs e t lz ->
    fs_read_archive decompress BinA parse_bin S p loc = fbind (fs_read decompress S p loc) (fun b => lift_parse (parse_bin e b)) /\
    fs_read_text_archive decompress TextA parse_text S p loc = fbind (fs_read decompress S p loc) (fun b => lift_parse (parse_text t e b)) /\
    fs_read_arc decompress ArcA parse_arc S p loc = fbind (fs_read decompress S p loc) (fun b => lift_parse (parse_arc b)) /\
    fs_read_fe9_arc decompress ArcA parse_fe9_arc S p loc = fbind (fs_read decompress S p loc) (fun b => lift_parse (parse_fe9_arc b)) /\
    (forall k, fs_read_textures decompress Tex parse_tex k S p loc = fbind (fs_read decompress S p loc) (fun b => lift_parse (parse_tex k b))) /\
    (forall a, fs_write_archive compress BinA ser_bin S p a loc =
       match lift_parse (ser_bin a) with FOk b => fs_write compress S p b loc | FErr x => (S, FErr x) | FPanic k => (S, FPanic k) end) /\
    (forall a, fs_write_text_archive compress TextA ser_text S p a loc =
       match lift_parse (ser_text a) with FOk b => fs_write compress S p b loc | FErr x => (S, FErr x) | FPanic k => (S, FPanic k) end).
  Proof.
    intros ls l g S c sufs e t lz p loc Hn Hs. rewrite C12_config in Hn. destruct ls as [|L0 ls]; [discriminate|].
    rewrite Hs in Hn. injection Hn as <-. repeat split.
  Qed.
End Typed.

(* ---- non-vacuity ---- *)
(* two layers; the lower holds the file d/a, the upper a DIRECTORY d/a: read still returns the lower file;
   a write of "d/x.lz" for FE13 stores the codec's output in the upper layer only and reads back *)
Definition ex_lower : layer := [([[100]], Dir); ([[100]; [97]], File [1; 2])].
Definition ex_upper : layer := [([[100]], Dir); ([[100]; [97]], Dir)].
Definition ex_fs : fsys := mkFs [ex_lower; ex_upper] (mkConfig LZ13 GFE13 LE Unicode) EnglishNA.
Definition ex_comp (f : cfmt) (b : bytes) : outcome bytes := Ok (19 :: b).
Definition ex_decomp (f : cfmt) (b : bytes) : outcome bytes := match b with 19 :: r => Ok r | _ => Err EInvalidInput end.
Example C12_example_shadow : fs_read ex_decomp ex_fs [100; 47; 97] false = FOk [1; 2].
Proof. vm_compute. reflexivity. Qed.
Example C12_example_write :
  let '(S', r) := fs_write ex_comp ex_fs [100; 47; 120; 46; 108; 122] [7; 8] true in
  r = FOk tt /\ nth_error (layers S') 0 = Some ex_lower /\
  l_get (last (layers S') []) [[100]; [69]; [120; 46; 108; 122]] = Some (File [19; 7; 8]) /\
  fs_read ex_decomp S' [100; 47; 120; 46; 108; 122] true = FOk [7; 8].
Proof. vm_compute. repeat split. Qed.
Example C12_example_round_trip_hyp : forall f b c, True -> ex_comp f b = Ok c -> ex_decomp f c = Ok b.
Proof. intros f b c _ H. injection H as <-. reflexivity. Qed.
(* a failed write with a trailing '/' leaves the created ancestor behind *)
Example C12_example_failed_write :
  let '(S', r) := fs_write ex_comp ex_fs [110; 47; 102; 47] [7] false in
  r = FErr EWrite /\ l_get (last (layers S') []) [[110]] = Some Dir /\ l_get (last (layers ex_fs) []) [[110]] = None.
Proof. vm_compute. repeat split. Qed.

(* ---- the codec half: the section variables instantiated with the models of mila's two codecs ---- *)
(* After the repair of F21 both compressors reject a payload whose length their size field cannot store (LZ10: 2^24
   bytes and more, LZ13: 2^32 bytes and more) with Err(InputTooLarge).  So NO size bound is imposed anywhere below:
   "the write succeeded" is the size condition for a compressed name, and for a name without the game's suffix no codec
   runs at all (review point C12-3).
   LZ13 payloads between 2^31 and 2^32 bytes: [real_compress] is built on the list model of calculate_lz13_header,
   proved equal to the machine-level model only below 2^31 bytes; the two can differ there only in the three wrapper
   length bytes, which the decoder never reads, and C09_round_trip_machine proves the same round trip for the
   machine-level model - the conclusions below do not depend on those bytes. *)

(* the round-trip law holds for the real codecs on EVERY byte string compress accepts (C08_round_trip_of_every_success,
   C09_round_trip_below_4GiB / C09_exported), whatever profile wrote and reads *)
Theorem C12_real_codec_round_trip : forall mc md f b c,
  wfb b -> real_compress mc f b = Ok c -> real_decompress md f c = Ok b.
Proof. exact (fun mc md f b c Hw Hc => real_codec_round_trip mc md f b c Hw Hc). Qed.

(* read after write with LZ10 (FE9/FE10) and LZ13 (FE13-FE15): every byte payload of every successful write, compressed
   name or not, any game - no size hypothesis *)
Theorem C12_read_after_write_real : forall mc md S p b loc S',
  fs_write (real_compress mc) S p b loc = (S', FOk tt) -> wfb b ->
  fs_read (real_decompress md) S' p loc = FOk b.
Proof. exact real_read_after_write_any. Qed.

(* compression fails exactly when the format's size field cannot store the length, with InputTooLarge *)
Theorem C12_real_compress_total : forall mc f b,
  (lenN b < codec_limit f -> exists c, real_compress mc f b = Ok c) /\
  (codec_limit f <= lenN b -> real_compress mc f b = Err ETooLarge).
Proof. exact real_compress_total. Qed.

(* a payload too large for the configured format, written to a name with the compressed suffix: the write fails with
   the compression error and the state is UNCHANGED (F21: before the repair an FE9/FE10 write of 2^24+5 bytes to
   "x.cmp" returned Ok, stored the size 5, and read back 20 bytes) *)
Theorem C12_write_too_large_fails : forall mc S p b loc,
  is_compressed (c_comp (conf S)) p = true -> codec_limit (c_comp (conf S)) <= lenN b ->
  fst (fs_write (real_compress mc) S p b loc) = S /\
  snd (fs_write (real_compress mc) S p b loc) <> FOk tt /\
  (forall sa, fs_addr S p loc = FOk sa ->
     fs_write (real_compress mc) S p b loc = (S, FErr (ECompression ETooLarge))).
Proof. exact real_write_too_large. Qed.

Theorem C12_write_too_large_fails_fe9_fe10 : forall mc ls l g S p b loc,
  fs_new ls l g = FOk S -> (g = FE9 \/ g = FE10) ->
  orb (ends_with sfx_cms p) (ends_with sfx_cmp p) = true -> 2 ^ 24 <= lenN b ->
  fst (fs_write (real_compress mc) S p b loc) = S /\
  snd (fs_write (real_compress mc) S p b loc) <> FOk tt /\
  (forall sa, fs_addr S p loc = FOk sa -> fs_write (real_compress mc) S p b loc = (S, FErr (ECompression ETooLarge))).
Proof. exact real_write_too_large_lz10. Qed.

(* a name without the game's compressed suffix is stored as it is, whatever its size: no codec runs *)
Theorem C12_plain_name_no_codec : forall mc S p b, is_compressed (c_comp (conf S)) p = false ->
  encode_by_name (real_compress mc) S p b = FOk b.
Proof. exact real_encode_plain. Qed.

(* the stored file: a valid compressed stream of the payload for a name with the game's suffix (LZ10: the strict
   parser accepts it with the payload's size and its tokens expand to the payload; LZ13: 0x13 wrapper + such an LZ11
   stream, the fixed 12-byte form for the empty payload) - and then the payload is below the format's limit -,
   the payload itself otherwise *)
Theorem C12_stored_stream_real : forall mc S p b loc S',
  fs_write (real_compress mc) S p b loc = (S', FOk tt) -> wfb b ->
  exists s pp c, fs_addr S p loc = FOk (s, (pp, false)) /\
    l_get (last (layers S') []) pp = Some (File c) /\
    if is_compressed (c_comp (conf S)) p
    then valid_stream (c_comp (conf S)) b c /\ lenN b < codec_limit (c_comp (conf S)) else c = b.
Proof. exact real_write_stored_any. Qed.

(* the codec never makes a write of a payload below 16 MiB fail *)
Theorem C12_encode_never_fails_real : forall mc S p b, lenN b < 2 ^ 24 ->
  exists c, encode_by_name (real_compress mc) S p b = FOk c.
Proof. exact real_encode_ok. Qed.

(* per game: codec, suffixes, and what the instantiated codec functions are *)
Theorem C12_codec_of_game : forall ls l g S, fs_new ls l g = FOk S ->
  match g with
  | FE9 | FE10 =>
    c_comp (conf S) = LayeredFS.LZ10 /\
    (forall p, is_compressed (c_comp (conf S)) p = orb (ends_with sfx_cms p) (ends_with sfx_cmp p)) /\
    (forall mc b, real_compress mc (c_comp (conf S)) b = compress10_o b) /\
    (forall md c, real_decompress md (c_comp (conf S)) c = lz10_decompress md c)
  | FE13 | FE14 | FE15 =>
    c_comp (conf S) = LayeredFS.LZ13 /\
    (forall p, is_compressed (c_comp (conf S)) p = ends_with sfx_lz p) /\
    (forall mc b, real_compress mc (c_comp (conf S)) b = compress13_o mc b) /\
    (forall md c, real_decompress md (c_comp (conf S)) c = lz13_decompress md c)
  | FE11 | FE12 => False
  end.
Proof. exact real_codec_of_game. Qed.

(* everything together, per game *)
Theorem C12_read_after_write_by_game : forall mc md ls l g S p b loc S',
  fs_new ls l g = FOk S ->
  fs_write (real_compress mc) S p b loc = (S', FOk tt) -> wfb b ->
  fs_read (real_decompress md) S' p loc = FOk b /\
  exists s pp c, fs_addr S p loc = FOk (s, (pp, false)) /\ l_get (last (layers S') []) pp = Some (File c) /\
    match g with
    | FE9 | FE10 => if orb (ends_with sfx_cms p) (ends_with sfx_cmp p)
                    then valid_stream LayeredFS.LZ10 b c /\ lz10_decompress md c = Ok b else c = b
    | _ => if ends_with sfx_lz p then valid_stream LayeredFS.LZ13 b c /\ lz13_decompress md c = Ok b else c = b
    end.
Proof. exact real_read_after_write_by_game_any. Qed.

(* non-vacuity: FE10 writes "a.cmp" as an LZ10 stream, FE14 writes "a.lz" as a wrapped LZ11 stream; read back in the other profile *)
Example C12_example_real_fe10 :
  let S := mkFs [[]] (mkConfig LayeredFS.LZ10 GFE10 BE ShiftJIS) EnglishNA in
  let p := [97; 46; 99; 109; 112] in
  let b := [5; 5; 5; 5; 5; 5; 5; 5; 5; 5] in
  let '(S', r) := fs_write (real_compress Checked) S p b false in
  r = FOk tt /\ l_get (last (layers S') []) [p] = Some (File [0x10; 10; 0; 0; 0x20; 5; 5; 0x50; 1]) /\
  fs_read (real_decompress Wrapping) S' p false = FOk b.
Proof. exact real_example_fe10. Qed.
Example C12_example_real_fe14 :
  let S := mkFs [[]] (mkConfig LayeredFS.LZ13 GFE14 LE Unicode) EnglishNA in
  let p := [97; 46; 108; 122] in
  let b := [5; 5; 5; 5; 5; 5; 5; 5; 5; 5] in
  let '(S', r) := fs_write (real_compress Checked) S p b false in
  r = FOk tt /\ l_get (last (layers S') []) [p] = Some (File [0x13; 13; 0; 0; 0x11; 10; 0; 0; 0x20; 5; 5; 0x70; 1]) /\
  fs_read (real_decompress Wrapping) S' p false = FOk b.
Proof. exact real_example_fe14. Qed.
(* ---- the typed helpers END TO END: the section variables above instantiated with the models of the real codecs,
   parsers and serializers (Model/FsTyped.v); proofs in Proofs/LayeredFSTyped.v compose C01, C06, C15, C16, C20 with
   read-after-write.  mc = build profile of the writing side, md = of the reading side; the file image must be shorter
   than 16 MiB (domain of the LZ round trip), stated through C01's size bound ser_bound / C06's file_bound. ---- *)
From Mila Require Import Model.FsTyped Proofs.LayeredFSTyped.
From Mila Require Model.BinArchive Model.BinFormat Model.TextMap Model.TextFormat Model.Arc Model.Pack Model.PackFormat
  Model.TexCommon Model.TexFormat Model.Ctpk Model.Bch Model.Cgfx Model.Tpl
  Proofs.AMapLemmas Proofs.BinFormatSpec Proofs.BinSerializeConformsPhases Proofs.BinSerializeConforms
  Proofs.TextFormatWrite Proofs.TextFormatRoundTrip Proofs.TextBinBridge Proofs.ArcProofs Proofs.TexDecode.

(* each helper = byte-level read + real parser with the CONFIGURED endianness / text format, or real serializer (with the
   parameters stored in the archive value) + byte-level write.
   UNFOLDING LEMMAS (C12_e2e_helpers_unfold, C12_e2e_same_codec; proofs by reflexivity): they display the definitions of
   Model/FsTyped.v so that the statements below can be read without it; they prove nothing about the code. *)
Theorem C12_e2e_helpers_unfold : forall kf mc md S p loc,
  read_archive md S p loc = fbind (read_file md S p loc) (fun b => lift_parse (BinFormat.from_bytes (c_endian (conf S)) b)) /\
  read_text_archive md S p loc = fbind (read_file md S p loc) (fun b => lift_parse (parse_text (c_text (conf S)) (c_endian (conf S)) b)) /\
  read_arc md S p loc = fbind (read_file md S p loc) (fun b => lift_parse (Arc.arc_from_bytes md b)) /\
  read_fe9_arc md S p loc = fbind (read_file md S p loc) (fun b => lift_parse (Pack.parse md b)) /\
  read_tpl_textures md S p loc = fbind (read_file md S p loc) (fun b => lift_parse (as_vec (Tpl.read_tpl md b))) /\
  read_bch_textures md S p loc = fbind (read_file md S p loc) (fun b => lift_parse (as_map (Bch.read_bch md b))) /\
  read_ctpk_textures md S p loc = fbind (read_file md S p loc) (fun b => lift_parse (as_map (Ctpk.read_ctpk md b))) /\
  read_cgfx_textures md S p loc = fbind (read_file md S p loc) (fun b => lift_parse (as_map (Cgfx.read_cgfx md b))) /\
  (forall a, write_archive kf mc S p a loc =
     match BinFormat.serialize_k kf mc a with
     | Ok f => write_file mc S p f loc | Err x => (S, FErr (EParse x)) | Panic k => (S, FPanic k) end) /\
  (forall a, write_text_archive kf mc S p a loc =
     match TextFormat.serialize kf mc (ta_fmt a) (ta_endian a) (ta_map a) with
     | Ok f => write_file mc S p f loc | Err x => (S, FErr (EParse x)) | Panic k => (S, FPanic k) end).
Proof. exact typed_helpers_unfold. Qed.
(* ... and the byte-level operations are the ones of the codec theorems above *)
Theorem C12_e2e_same_codec : forall mc md, write_file mc = fs_write (real_compress mc) /\ read_file md = fs_read (real_decompress md).
Proof. intros mc md. split; reflexivity. Qed.

(* every typed reader after a successful byte-level write to the same path: the real parser applied to the written bytes *)
Theorem C12_e2e_typed_reads_after_write : forall mc md S p b loc S',
  write_file mc S p b loc = (S', FOk tt) -> wfb b -> lenN b < 2 ^ 24 ->
  read_file md S' p loc = FOk b /\
  read_archive md S' p loc = lift_parse (BinFormat.from_bytes (c_endian (conf S)) b) /\
  read_text_archive md S' p loc = lift_parse (parse_text (c_text (conf S)) (c_endian (conf S)) b) /\
  read_arc md S' p loc = lift_parse (Arc.arc_from_bytes md b) /\
  read_fe9_arc md S' p loc = lift_parse (Pack.parse md b) /\
  read_tpl_textures md S' p loc = lift_parse (as_vec (Tpl.read_tpl md b)) /\
  read_bch_textures md S' p loc = lift_parse (as_map (Bch.read_bch md b)) /\
  read_ctpk_textures md S' p loc = lift_parse (as_map (Ctpk.read_ctpk md b)) /\
  read_cgfx_textures md S' p loc = lift_parse (as_map (Cgfx.read_cgfx md b)).
Proof. exact typed_reads_after_write. Qed.

(* a typed read in ANY state = the parser applied to the decoded file of the highest layer holding a FILE at the location *)
Theorem C12_e2e_typed_read_top_wins : forall md A (parse : bytes -> outcome A) S p loc s a (r : fres A),
  fs_addr S p loc = FOk (s, a) ->
  (fbind (read_file md S p loc) (fun b => lift_parse (parse b)) = r /\ r <> FErr ENotFound <->
   exists i L raw, nth_error (layers S) i = Some L /\ l_read L a = Some raw /\
     (forall j L', (i < j)%nat -> nth_error (layers S) j = Some L' -> l_is_file L' a = false) /\
     fbind (decode_by_name (lz_decompress md) S p raw) (fun b => lift_parse (parse b)) = r).
Proof. exact (@typed_read_top_wins). Qed.

(* (a) write_archive -> read_archive: the archive read back is related to the written one exactly as in C01_round_trip.
   C12_e2e_same_archive_is_C01 is an UNFOLDING LEMMA (proof `fun H => H`): it spells out the definition [same_archive]. *)
Theorem C12_e2e_same_archive_is_C01 : forall a a' : BinArchive.archive,
  same_archive a a' <->
  (BinArchive.a_endian a' = BinArchive.a_endian a /\ BinArchive.a_cstrs a' = [] /\
   BinArchive.size a' = BinArchive.size a + lenN (BinSerializeConforms.pool_bytes a) /\
   lenN (BinSerializeConforms.pool_bytes a) mod 4 = 0 /\ (BinArchive.a_cstrs a = [] -> BinArchive.size a' = BinArchive.size a) /\
   (forall i, (i < N.to_nat (BinArchive.size a))%nat -> BinSerializeConformsPhases.outside (BinSerializeConforms.cells a) i ->
      nth_error (BinArchive.a_data a') i = nth_error (BinArchive.a_data a) i) /\
   (forall x, BinArchive.am_get x (BinArchive.a_text a') = BinArchive.am_get x (BinArchive.a_text a)) /\
   (forall x, ~ In x (BinSerializeConforms.cs_cells a) -> BinArchive.am_get x (BinArchive.a_ptrs a') = BinArchive.am_get x (BinArchive.a_ptrs a)) /\
   (forall x, BinArchive.am_get x (BinArchive.a_labels a') = BinArchive.am_get x (BinArchive.a_labels a)) /\
   (forall s cs cell, In (s, cs) (BinArchive.a_cstrs a) -> In cell cs -> BinArchive.read_c_string a' cell = Ok (Some s))).
Proof. intros a a'. split; exact (fun H => H). Qed.
Theorem C12_e2e_archive_round_trip : forall kf mc md S p loc a S',
  BinSerializeConforms.wf_archive a -> BinSerializeConforms.ser_bound a < 2 ^ 24 -> BinArchive.a_endian a = c_endian (conf S) ->
  write_archive kf mc S p a loc = (S', FOk tt) ->
  exists f a',
    BinFormat.serialize_k kf mc a = Ok f /\ write_file mc S p f loc = (S', FOk tt) /\
    read_file md S' p loc = FOk f /\
    read_archive md S' p loc = FOk a' /\ same_archive a a'.
Proof. exact e2e_archive_round_trip. Qed.
(* per game: FE9 / FE10 big-endian archives, FE13 - FE15 little-endian archives *)
Theorem C12_e2e_archive_round_trip_by_game : forall kf mc md ls l g S p loc a S',
  fs_new ls l g = FOk S ->
  BinSerializeConforms.wf_archive a -> BinSerializeConforms.ser_bound a < 2 ^ 24 ->
  match g with FE9 | FE10 => BinArchive.a_endian a = BE | FE13 | FE14 | FE15 => BinArchive.a_endian a = LE | FE11 | FE12 => False end ->
  write_archive kf mc S p a loc = (S', FOk tt) ->
  exists f a',
    BinFormat.serialize_k kf mc a = Ok f /\ write_file mc S p f loc = (S', FOk tt) /\
    read_file md S' p loc = FOk f /\
    read_archive md S' p loc = FOk a' /\ same_archive a a'.
Proof. exact e2e_archive_round_trip_by_game. Qed.
(* read_archive of ANY file conforming to the bin-archive format (C01's relation) with the configured endianness *)
Theorem C12_e2e_read_archive_conforming : forall mc md S p loc f c S',
  write_file mc S p f loc = (S', FOk tt) -> wfb f -> lenN f < 2 ^ 24 ->
  BinFormatSpec.conforms (c_endian (conf S)) f c ->
  exists a, read_archive md S' p loc = FOk a /\ BinArchive.a_data a = BinFormatSpec.c_data c /\
    BinArchive.a_endian a = c_endian (conf S) /\ BinArchive.a_cstrs a = [] /\
    (forall x, BinArchive.am_get x (BinArchive.a_ptrs a) = BinArchive.am_get x (BinFormatSpec.c_ptrs c)) /\
    (forall x, BinArchive.am_get x (BinArchive.a_text a) = BinArchive.am_get x (BinFormatSpec.c_text c)) /\
    (forall x, BinArchive.am_get x (BinArchive.a_labels a) = BinArchive.am_get x (BinFormatSpec.c_labels c)).
Proof. exact e2e_read_archive_conforming. Qed.

(* (b) write_text_archive -> read_text_archive: title (the legacy format stores none), keys in order, messages, dirty = false *)
Theorem C12_e2e_text_round_trip : forall kf mc md S p loc ta S',
  TextFormatRoundTrip.wf_text (ta_fmt ta) (ta_map ta) -> TextFormatRoundTrip.wf_text_bytes (ta_fmt ta) (ta_endian ta) (ta_map ta) ->
  TextFormatRoundTrip.file_bound (TextFormatWrite.text_image (ta_fmt ta) (ta_endian ta) (ta_map ta)) < 2 ^ 24 ->
  ta_fmt ta = tformat_of (c_text (conf S)) -> ta_endian ta = c_endian (conf S) ->
  write_text_archive kf mc S p ta loc = (S', FOk tt) ->
  exists f,
    TextFormat.serialize kf mc (ta_fmt ta) (ta_endian ta) (ta_map ta) = Ok f /\ write_file mc S p f loc = (S', FOk tt) /\
    read_file md S' p loc = FOk f /\
    read_text_archive md S' p loc =
      FOk (mkTA (ta_fmt ta) (ta_endian ta)
             {| TextMap.t_title := match ta_fmt ta with TextFormat.Unicode => TextMap.t_title (ta_map ta) | TextFormat.ShiftJIS => [] end;
                TextMap.t_entries := TextMap.t_entries (ta_map ta); TextMap.t_dirty := false |}).
Proof. exact e2e_text_round_trip. Qed.
Theorem C12_e2e_text_round_trip_by_game : forall kf mc md ls l g S p loc ta S',
  fs_new ls l g = FOk S ->
  TextFormatRoundTrip.wf_text (ta_fmt ta) (ta_map ta) -> TextFormatRoundTrip.wf_text_bytes (ta_fmt ta) (ta_endian ta) (ta_map ta) ->
  TextFormatRoundTrip.file_bound (TextFormatWrite.text_image (ta_fmt ta) (ta_endian ta) (ta_map ta)) < 2 ^ 24 ->
  match g with
  | FE9 | FE10 => ta_fmt ta = TextFormat.ShiftJIS /\ ta_endian ta = BE
  | FE13 | FE14 | FE15 => ta_fmt ta = TextFormat.Unicode /\ ta_endian ta = LE
  | FE11 | FE12 => False
  end ->
  write_text_archive kf mc S p ta loc = (S', FOk tt) ->
  exists f,
    TextFormat.serialize kf mc (ta_fmt ta) (ta_endian ta) (ta_map ta) = Ok f /\ write_file mc S p f loc = (S', FOk tt) /\
    read_file md S' p loc = FOk f /\
    read_text_archive md S' p loc =
      FOk (mkTA (ta_fmt ta) (ta_endian ta)
             {| TextMap.t_title := match ta_fmt ta with TextFormat.Unicode => TextMap.t_title (ta_map ta) | TextFormat.ShiftJIS => [] end;
                TextMap.t_entries := TextMap.t_entries (ta_map ta); TextMap.t_dirty := false |}).
Proof. exact e2e_text_round_trip_by_game. Qed.

(* everything together, per game: archive value -> image f (C01 / C06) -> stored file c (LZ10 for ".cms" / ".cmp" under FE9 / FE10,
   0x13-wrapped LZ11 for ".lz" under FE13 - FE15, f itself otherwise) in the top layer at the addressed location -> decompressed by the
   game's decompressor back to f -> parsed with the game's endianness (and text format) to the value the typed reader returns *)
Theorem C12_e2e_archive_by_game_chain : forall kf mc md ls l g S p loc a S',
  fs_new ls l g = FOk S ->
  BinSerializeConforms.wf_archive a -> BinSerializeConforms.ser_bound a < 2 ^ 24 ->
  match g with FE9 | FE10 => BinArchive.a_endian a = BE | FE13 | FE14 | FE15 => BinArchive.a_endian a = LE | FE11 | FE12 => False end ->
  write_archive kf mc S p a loc = (S', FOk tt) ->
  exists f a' s pp c,
    BinFormat.serialize_k kf mc a = Ok f /\
    fs_addr S p loc = FOk (s, (pp, false)) /\ l_get (last (layers S') []) pp = Some (File c) /\
    match g with
    | FE9 | FE10 => if orb (ends_with sfx_cms p) (ends_with sfx_cmp p)
                    then valid_stream LayeredFS.LZ10 f c /\ lz10_decompress md c = Ok f else c = f
    | _ => if ends_with sfx_lz p then valid_stream LayeredFS.LZ13 f c /\ lz13_decompress md c = Ok f else c = f
    end /\
    BinFormat.from_bytes (match g with FE9 | FE10 => BE | _ => LE end) f = Ok a' /\
    read_archive md S' p loc = FOk a' /\ same_archive a a'.
Proof. exact e2e_archive_by_game_chain. Qed.
Theorem C12_e2e_text_by_game_chain : forall kf mc md ls l g S p loc ta S',
  fs_new ls l g = FOk S ->
  TextFormatRoundTrip.wf_text (ta_fmt ta) (ta_map ta) -> TextFormatRoundTrip.wf_text_bytes (ta_fmt ta) (ta_endian ta) (ta_map ta) ->
  TextFormatRoundTrip.file_bound (TextFormatWrite.text_image (ta_fmt ta) (ta_endian ta) (ta_map ta)) < 2 ^ 24 ->
  match g with
  | FE9 | FE10 => ta_fmt ta = TextFormat.ShiftJIS /\ ta_endian ta = BE
  | FE13 | FE14 | FE15 => ta_fmt ta = TextFormat.Unicode /\ ta_endian ta = LE
  | FE11 | FE12 => False
  end ->
  write_text_archive kf mc S p ta loc = (S', FOk tt) ->
  exists f s pp c,
    TextFormat.serialize kf mc (ta_fmt ta) (ta_endian ta) (ta_map ta) = Ok f /\
    fs_addr S p loc = FOk (s, (pp, false)) /\ l_get (last (layers S') []) pp = Some (File c) /\
    match g with
    | FE9 | FE10 => if orb (ends_with sfx_cms p) (ends_with sfx_cmp p)
                    then valid_stream LayeredFS.LZ10 f c /\ lz10_decompress md c = Ok f else c = f
    | _ => if ends_with sfx_lz p then valid_stream LayeredFS.LZ13 f c /\ lz13_decompress md c = Ok f else c = f
    end /\
    TextFormat.from_bytes (match g with FE9 | FE10 => TextFormat.ShiftJIS | _ => TextFormat.Unicode end)
                          (match g with FE9 | FE10 => BE | _ => LE end) f = Ok (TextFormatRoundTrip.parsed (ta_fmt ta) (ta_map ta)) /\
    read_text_archive md S' p loc = FOk (mkTA (ta_fmt ta) (ta_endian ta) (TextFormatRoundTrip.parsed (ta_fmt ta) (ta_map ta))).
Proof. exact e2e_text_by_game_chain. Qed.
(* what [parsed] is: the title (the legacy format stores none), the entries in order, dirty = false *)
Theorem C12_e2e_parsed_is : forall fmt t,
  TextFormatRoundTrip.parsed fmt t =
  {| TextMap.t_title := match fmt with TextFormat.Unicode => TextMap.t_title t | TextFormat.ShiftJIS => [] end;
     TextMap.t_entries := TextMap.t_entries t; TextMap.t_dirty := false |}.
Proof. reflexivity. Qed.

(* (c) pack / arc / texture images written with the byte-level write (there is no typed writer), read by the typed readers *)
Theorem C12_e2e_read_fe9_arc : forall mc md S p loc f fl S',
  write_file mc S p f loc = (S', FOk tt) -> wfb f -> lenN f < 2 ^ 24 ->
  PackFormat.conforms_pack f fl -> read_fe9_arc md S' p loc = FOk fl.
Proof. exact e2e_read_fe9_arc. Qed.
Theorem C12_e2e_fe9_arc_round_trip : forall mc md S p loc fl f S',
  PackFormat.wf_files fl -> N.of_nat (length fl) <= 65535 -> PackFormat.fits32 fl ->
  Pack.serialize fl = Ok f -> lenN f < 2 ^ 24 ->
  write_file mc S p f loc = (S', FOk tt) -> read_fe9_arc md S' p loc = FOk fl.
Proof. exact e2e_fe9_arc_round_trip. Qed.
Theorem C12_e2e_read_arc : forall mc md S p loc f c fl S',
  write_file mc S p f loc = (S', FOk tt) -> wfb f -> lenN f < 2 ^ 24 ->
  BinFormatSpec.conforms LE f c -> ArcProofs.arc_layout (TextBinBridge.content_archive LE c) fl ->
  read_arc md S' p loc = FOk fl.
Proof. exact e2e_read_arc. Qed.
Theorem C12_e2e_read_ctpk : forall mc md S p loc f texs S',
  write_file mc S p f loc = (S', FOk tt) -> wfb f -> lenN f < 2 ^ 24 -> TexFormat.conforms_ctpk f texs ->
  Forall TexCommon.f32_exact texs ->       (* the reader's f32 payload-size request is exact (see Properties/C20.v) *)
  read_ctpk_textures md S' p loc = lift_parse (as_map (TexCommon.decode_all (TexCommon.decode_tex md) texs)).
Proof. exact e2e_read_ctpk. Qed.
Theorem C12_e2e_read_bch : forall mc md S p loc f texs S',
  write_file mc S p f loc = (S', FOk tt) -> wfb f -> lenN f < 2 ^ 24 -> TexFormat.conforms_bch f texs ->
  Forall TexCommon.f32_exact texs ->
  read_bch_textures md S' p loc = lift_parse (as_map (TexCommon.decode_all (TexCommon.decode_tex md) texs)).
Proof. exact e2e_read_bch. Qed.
Theorem C12_e2e_read_cgfx : forall mc md S p loc f texs S',
  write_file mc S p f loc = (S', FOk tt) -> wfb f -> lenN f < 2 ^ 24 -> TexFormat.conforms_cgfx f texs ->
  read_cgfx_textures md S' p loc = lift_parse (as_map (TexCommon.decode_all (TexCommon.decode_tex md) texs)).
Proof. exact e2e_read_cgfx. Qed.
Theorem C12_e2e_read_tpl : forall mc md S p loc f texs S',
  write_file mc S p f loc = (S', FOk tt) -> wfb f -> lenN f < 2 ^ 24 -> TexFormat.conforms_tpl f texs ->
  read_tpl_textures md S' p loc = lift_parse (as_vec (TexCommon.decode_all TexCommon.decode_tpl_tex texs)).
Proof. exact e2e_read_tpl. Qed.
(* on C19's supported textures: the packed textures decoded, by name (bch / ctpk / cgfx) or in order (tpl) *)
Theorem C12_e2e_read_textures_supported : forall mc md S p loc f texs S',
  write_file mc S p f loc = (S', FOk tt) -> wfb f -> lenN f < 2 ^ 24 ->
  (TexFormat.conforms_ctpk f texs -> Forall TexDecode.supported3ds_f32 texs ->
     read_ctpk_textures md S' p loc = FOk (TexMap (tex_map (map TexDecode.decoded texs)))) /\
  (TexFormat.conforms_bch f texs -> Forall TexDecode.supported3ds_f32 texs ->
     read_bch_textures md S' p loc = FOk (TexMap (tex_map (map TexDecode.decoded texs)))) /\
  (TexFormat.conforms_cgfx f texs -> Forall TexDecode.supported3ds texs ->
     read_cgfx_textures md S' p loc = FOk (TexMap (tex_map (map TexDecode.decoded texs)))) /\
  (TexFormat.conforms_tpl f texs -> Forall TexDecode.supportedtpl texs ->
     read_tpl_textures md S' p loc = FOk (TexVec (map TexDecode.tpl_decoded texs))).
Proof. exact e2e_read_textures_supported. Qed.
(* texture_vec_to_map: with distinct names the list itself keyed by name; in general a name maps to the LAST texture carrying it *)
Theorem C12_e2e_tex_map_distinct : forall l, NoDup (map TexCommon.x_name l) -> tex_map l = map (fun t => (TexCommon.x_name t, t)) l.
Proof. exact tex_map_distinct. Qed.
Theorem C12_e2e_tex_map_lookup : forall l k, tex_get k (tex_map l) = find (fun t => bytes_eqb k (TexCommon.x_name t)) (rev l).
Proof. exact tex_map_lookup. Qed.

(* (d) the typed writers touch the top layer only *)
Theorem C12_e2e_write_archive_lower_untouched : forall kf mc S p a loc S' r,
  write_archive kf mc S p a loc = (S', r) ->
  conf S' = conf S /\ lng S' = lng S /\ length (layers S') = length (layers S) /\ removelast (layers S') = removelast (layers S).
Proof. exact write_archive_lower_untouched. Qed.
Theorem C12_e2e_write_text_archive_lower_untouched : forall kf mc S p a loc S' r,
  write_text_archive kf mc S p a loc = (S', r) ->
  conf S' = conf S /\ lng S' = lng S /\ length (layers S') = length (layers S) /\ removelast (layers S') = removelast (layers S).
Proof. exact write_text_archive_lower_untouched. Qed.
(* success: the top layer holds at the addressed location a valid LZ10 / wrapped LZ11 stream of the IMAGE (compressed name) or
   the image itself, directories at its ancestors, and is unchanged everywhere else.
   C12_e2e_top_layer_effect_is is an UNFOLDING LEMMA (proof `fun H => H`): it spells out the definition [top_layer_effect]. *)
Theorem C12_e2e_top_layer_effect_is : forall S S' pp c,
  top_layer_effect S S' pp c <->
  (pp <> [] /\ layers S <> [] /\
   let top := last (layers S) [] in let top' := last (layers S') [] in
   l_get top' pp = Some (File c) /\
   (forall q, In q (proper_prefixes pp) -> l_get top' q = Some Dir) /\
   (forall q, q <> pp -> ~ (In q (proper_prefixes pp) /\ l_get top q = None) -> l_get top' q = l_get top q) /\
   l_get top pp <> Some Dir /\ (forall q, In q (proper_prefixes pp) -> is_file_at top q = false)).
Proof. intros S S' pp c. split; exact (fun H => H). Qed.
Theorem C12_e2e_write_archive_top_only : forall kf mc S p a loc S',
  BinSerializeConforms.wf_archive a -> BinSerializeConforms.ser_bound a < 2 ^ 24 ->
  write_archive kf mc S p a loc = (S', FOk tt) ->
  exists f s pp c, BinFormat.serialize_k kf mc a = Ok f /\ fs_addr S p loc = FOk (s, (pp, false)) /\ top_layer_effect S S' pp c /\
    if is_compressed (c_comp (conf S)) p then valid_stream (c_comp (conf S)) f c else c = f.
Proof. exact write_archive_top_only. Qed.
Theorem C12_e2e_write_text_archive_top_only : forall kf mc S p ta loc S',
  TextFormatRoundTrip.wf_text (ta_fmt ta) (ta_map ta) -> TextFormatRoundTrip.wf_text_bytes (ta_fmt ta) (ta_endian ta) (ta_map ta) ->
  TextFormatRoundTrip.file_bound (TextFormatWrite.text_image (ta_fmt ta) (ta_endian ta) (ta_map ta)) < 2 ^ 24 ->
  write_text_archive kf mc S p ta loc = (S', FOk tt) ->
  exists f s pp c, TextFormat.serialize kf mc (ta_fmt ta) (ta_endian ta) (ta_map ta) = Ok f /\
    fs_addr S p loc = FOk (s, (pp, false)) /\ top_layer_effect S S' pp c /\
    if is_compressed (c_comp (conf S)) p then valid_stream (c_comp (conf S)) f c else c = f.
Proof. exact write_text_archive_top_only. Qed.
(* in the domain the serializers succeed, so a typed write IS the byte-level write of the image (its failures are the ones of
   C12_write_fail / C12_write_fail_unchanged); a failing serializer changes nothing *)
Theorem C12_e2e_write_archive_is_write : forall kf mc S p a loc,
  BinSerializeConforms.wf_archive a -> BinSerializeConforms.ser_bound a < 2 ^ 24 ->
  exists f, BinFormat.serialize_k kf mc a = Ok f /\ wfb f /\ lenN f < 2 ^ 24 /\ write_archive kf mc S p a loc = write_file mc S p f loc.
Proof. exact write_archive_is_write. Qed.
Theorem C12_e2e_write_text_archive_is_write : forall kf mc S p ta loc,
  TextFormatRoundTrip.wf_text (ta_fmt ta) (ta_map ta) -> TextFormatRoundTrip.wf_text_bytes (ta_fmt ta) (ta_endian ta) (ta_map ta) ->
  TextFormatRoundTrip.file_bound (TextFormatWrite.text_image (ta_fmt ta) (ta_endian ta) (ta_map ta)) < 2 ^ 24 ->
  exists f, TextFormat.serialize kf mc (ta_fmt ta) (ta_endian ta) (ta_map ta) = Ok f /\ wfb f /\ lenN f < 2 ^ 24 /\
    write_text_archive kf mc S p ta loc = write_file mc S p f loc.
Proof. exact write_text_archive_is_write. Qed.
Theorem C12_e2e_write_archive_serialize_fails : forall kf mc S p a loc S' r,
  write_archive kf mc S p a loc = (S', r) -> (forall f, BinFormat.serialize_k kf mc a <> Ok f) -> S' = S /\ r <> FOk tt.
Proof. exact write_archive_serialize_fails. Qed.

(* ---- histories of typed and byte-level calls (typed_run = iteration of typed_step, the function the correspondence runs) ---- *)
(* along ANY history: configuration, language, number of layers and all layers but the last never change; layers stay directory trees *)
Theorem C12_e2e_typed_run_lower_untouched : forall kf mc md os S,
  let S' := typed_run kf mc md S os in
  conf S' = conf S /\ lng S' = lng S /\ length (layers S') = length (layers S) /\ removelast (layers S') = removelast (layers S).
Proof. exact typed_run_lower_untouched. Qed.
Theorem C12_e2e_typed_run_wf : forall kf mc md os S, wf_fs S -> wf_fs (typed_run kf mc md S os).
Proof. exact typed_run_wf. Qed.
(* frame, for EVERY codec: a write - whatever it returns - that is not addressed to the location p addresses leaves read p unchanged *)
Theorem C12_e2e_write_frame_read : forall compress decompress S q b locq S' r p loc s a,
  fs_write compress S q b locq = (S', r) ->
  fs_addr S p loc = FOk (s, a) ->
  (forall s' qq trq, fs_addr S q locq = FOk (s', (qq, trq)) -> qq <> fst a) ->
  fs_read decompress S' p loc = fs_read decompress S p loc.
Proof. exact write_frame_read. Qed.
(* [writes_elsewhere S pp o]: o is a read, or a (typed) write whose addressed location is not pp.
   UNFOLDING LEMMA (proof `fun H => H`): it spells out the definition. *)
Theorem C12_e2e_writes_elsewhere_is : forall S pp o,
  writes_elsewhere S pp o <->
  match o with
  | TWrite q _ l | TWriteArchive q _ l | TWriteText q _ l => forall s qq tr, fs_addr S q l = FOk (s, (qq, tr)) -> qq <> pp
  | _ => True
  end.
Proof. intros S pp o. split; exact (fun H => H). Qed.
(* along a history none of whose calls writes to the location p addresses, every reader returns what it returned before *)
Theorem C12_e2e_typed_run_keeps_typed_reads : forall kf mc md md' os S p loc s a,
  fs_addr S p loc = FOk (s, a) -> Forall (writes_elsewhere S (fst a)) os ->
  let S' := typed_run kf mc md S os in
  read_file md' S' p loc = read_file md' S p loc /\
  read_archive md' S' p loc = read_archive md' S p loc /\
  read_text_archive md' S' p loc = read_text_archive md' S p loc /\
  read_arc md' S' p loc = read_arc md' S p loc /\
  read_fe9_arc md' S' p loc = read_fe9_arc md' S p loc /\
  (forall k, read_textures md' k S' p loc = read_textures md' k S p loc).
Proof. exact typed_run_keeps_typed_reads. Qed.
(* read-after-write THROUGH a history: write_archive, then any calls that do not write to the same location (writes elsewhere, typed or
   not, succeeding or failing, and reads), then read_archive: the archive of C01's round trip *)
Theorem C12_e2e_archive_round_trip_history : forall kf mc md S p loc a S1 os,
  BinSerializeConforms.wf_archive a -> BinSerializeConforms.ser_bound a < 2 ^ 24 -> BinArchive.a_endian a = c_endian (conf S) ->
  write_archive kf mc S p a loc = (S1, FOk tt) ->
  (forall s pp tr, fs_addr S p loc = FOk (s, (pp, tr)) -> Forall (writes_elsewhere S pp) os) ->
  exists a', read_archive md (typed_run kf mc md S1 os) p loc = FOk a' /\ same_archive a a'.
Proof. exact e2e_archive_round_trip_history. Qed.

(* ---- localisation (file-system half of C14) for the typed helpers ---- *)
(* a localized typed call addresses what the unlocalized call on [localize p] addresses; the codec is chosen by the caller's name (the
   premise holds for every path dir/name without trailing '/': C14_fs_same_codec) *)
Theorem C12_e2e_typed_localized_consistent : forall kf mc md S p p',
  localize (c_loc (conf S)) (lng S) p = LOk p' ->
  is_compressed (c_comp (conf S)) p = is_compressed (c_comp (conf S)) p' ->
  read_file md S p true = read_file md S p' false /\
  read_archive md S p true = read_archive md S p' false /\
  read_text_archive md S p true = read_text_archive md S p' false /\
  read_arc md S p true = read_arc md S p' false /\
  read_fe9_arc md S p true = read_fe9_arc md S p' false /\
  (forall k, read_textures md k S p true = read_textures md k S p' false) /\
  (forall b, write_file mc S p b true = write_file mc S p' b false) /\
  (forall a, write_archive kf mc S p a true = write_archive kf mc S p' a false) /\
  (forall a, write_text_archive kf mc S p a true = write_text_archive kf mc S p' a false).
Proof. exact typed_localized_consistent. Qed.
(* a localisation error is returned by every typed reader, and by a typed writer unless its serializer fails first (the code serializes
   before it localizes); nothing changes *)
Theorem C12_e2e_typed_localisation_error : forall kf mc md S p e,
  localize (c_loc (conf S)) (lng S) p = LErr e ->
  read_file md S p true = FErr (ELocalization e) /\
  read_archive md S p true = FErr (ELocalization e) /\
  read_text_archive md S p true = FErr (ELocalization e) /\
  read_arc md S p true = FErr (ELocalization e) /\
  read_fe9_arc md S p true = FErr (ELocalization e) /\
  (forall k, read_textures md k S p true = FErr (ELocalization e)) /\
  (forall b, write_file mc S p b true = (S, FErr (ELocalization e))) /\
  (forall a f, BinFormat.serialize_k kf mc a = Ok f -> write_archive kf mc S p a true = (S, FErr (ELocalization e))) /\
  (forall a f, TextFormat.serialize kf mc (ta_fmt a) (ta_endian a) (ta_map a) = Ok f ->
     write_text_archive kf mc S p a true = (S, FErr (ELocalization e))) /\
  (forall a S' r, write_archive kf mc S p a true = (S', r) -> S' = S) /\
  (forall a S' r, write_text_archive kf mc S p a true = (S', r) -> S' = S).
Proof. exact typed_localisation_error. Qed.

(* ---- non-vacuity of the end-to-end statements (all by computation on the instantiated model) ---- *)
Example C12_e2e_example_archive_hyp :
  fs_new [[]] EnglishNA FE10 = FOk ex_fe10 /\ BinSerializeConforms.wf_archive BinSerializeConforms.ex_archive /\
  BinSerializeConforms.ser_bound BinSerializeConforms.ex_archive < 2 ^ 24 /\
  BinArchive.a_endian BinSerializeConforms.ex_archive = BE.
Proof. exact e2e_example_archive_hyp. Qed.
Example C12_e2e_example_archive :
  let '(S', r) := write_archive BinFormat.key_bytes Checked ex_fe10 ex_cmp BinSerializeConforms.ex_archive false in
  r = FOk tt /\
  l_get (last (layers S') []) [ex_cmp] =
    Some (File [16; 87; 0; 0; 10; 0; 0; 0; 87; 0; 3; 18; 0; 7; 3; 181; 0; 11; 2; 0; 15; 208; 2; 52; 0; 35; 14; 16; 27; 10; 13; 14; 99; 115;
                32; 31; 4; 0; 53; 8; 224; 64; 41; 16; 25; 80; 7; 3; 76; 49; 0; 76; 0; 50; 0; 104; 105; 0]) /\
  read_archive Wrapping S' ex_cmp false =
    FOk {| BinArchive.a_data := [0; 0; 0; 52; 0; 0; 0; 14; 0; 0; 0; 2; 13; 14; 99; 115; 0; 0]; BinArchive.a_text := [(0, [104; 105])];
           BinArchive.a_ptrs := [(4, 14); (8, 2)]; BinArchive.a_labels := [(14, [[76; 49]; [76; 50]])];
           BinArchive.a_cstrs := []; BinArchive.a_endian := BE |}.
Proof. exact e2e_example_archive. Qed.
(* the endianness hypothesis is necessary: a LITTLE-endian archive is written to the FE10 file system without complaint and
   read_archive (big-endian for FE10) rejects the file *)
Example C12_e2e_archive_wrong_endian :
  let '(S', r) := write_archive BinFormat.key_bytes Checked ex_fe10 ex_cmp ex_archive_le false in
  r = FOk tt /\ read_archive Checked S' ex_cmp false = FErr (EParse ETooSmall).
Proof. exact e2e_archive_wrong_endian. Qed.
Example C12_e2e_example_text_hyp :
  fs_new [[]; []] French FE14 = FOk ex_fe14 /\
  TextFormatRoundTrip.wf_text (ta_fmt ex_text) (ta_map ex_text) /\
  TextFormatRoundTrip.wf_text_bytes (ta_fmt ex_text) (ta_endian ex_text) (ta_map ex_text) /\
  TextFormatRoundTrip.file_bound (TextFormatWrite.text_image (ta_fmt ex_text) (ta_endian ex_text) (ta_map ex_text)) < 2 ^ 24 /\
  (ta_fmt ex_text = TextFormat.Unicode /\ ta_endian ex_text = LE).
Proof. exact e2e_example_text_hyp. Qed.
(* FE14, two layers, French, LOCALIZED write of "m/t.bin.lz": stored at m/@F/t.bin.lz in the top layer as a 0x13-wrapped stream *)
Example C12_e2e_example_text :
  let '(S', r) := write_text_archive BinFormat.key_bytes Checked ex_fe14 ex_lz ex_text true in
  r = FOk tt /\ nth_error (layers S') 0 = Some [] /\
  (exists c, l_get (last (layers S') []) [[109]; [64; 70]; [116; 46; 98; 105; 110; 46; 108; 122]] = Some (File (0x13 :: c))) /\
  read_text_archive Wrapping S' ex_lz true =
    FOk (mkTA TextFormat.Unicode LE {| TextMap.t_title := [84; 105]; TextMap.t_entries := TextMap.t_entries (ta_map ex_text); TextMap.t_dirty := false |}).
Proof. exact e2e_example_text. Qed.
Example C12_e2e_example_pack :
  wfb ex_pack /\ PackFormat.conforms_pack ex_pack [([97;98], [10;11;12;13]); ([98], [11;12])] /\
  let '(S', r) := write_file Checked ex_fe9 ex_cms ex_pack false in
  r = FOk tt /\ read_fe9_arc Wrapping S' ex_cms false = FOk [([97;98], [10;11;12;13]); ([98], [11;12])].
Proof. exact e2e_example_pack. Qed.
Example C12_e2e_example_arc :
  let p := [100; 47; 120; 46; 97; 114; 99] in
  let '(S', r) := write_file Checked ex_fe13 p ex_arc_file false in
  r = FOk tt /\ read_arc Wrapping S' p false = FOk [([98], [9;8;7])].
Proof. exact e2e_example_arc. Qed.
Example C12_e2e_example_ctpk :
  wfb ex_ctpk /\ TexFormat.conforms_ctpk ex_ctpk [ex_ctpk_tex] /\ Forall TexDecode.supported3ds [ex_ctpk_tex] /\
  let p := [116; 46; 99; 116; 112; 107; 46; 108; 122] in
  let '(S', r) := write_file Checked ex_fe13 p ex_ctpk false in
  r = FOk tt /\
  read_ctpk_textures Wrapping S' p false = FOk (TexMap [([131;101;120], TexDecode.decoded ex_ctpk_tex)]).
Proof. exact e2e_example_ctpk. Qed.
(* a history: write_archive "a.cmp"; then write "b.bin", write_archive "d/c.cmp", a FAILING write "b.bin/x" (through a file), two reads *)
Example C12_e2e_example_history_hyp :
  forall s pp tr, fs_addr ex_fe10 ex_cmp false = FOk (s, (pp, tr)) -> Forall (writes_elsewhere ex_fe10 pp) ex_history.
Proof. exact e2e_example_history_hyp. Qed.
Example C12_e2e_example_history :
  let '(S1, r) := write_archive BinFormat.key_bytes Checked ex_fe10 ex_cmp BinSerializeConforms.ex_archive false in
  r = FOk tt /\
  exists a', read_archive Wrapping (typed_run BinFormat.key_bytes Checked Wrapping S1 ex_history) ex_cmp false = FOk a' /\
             same_archive BinSerializeConforms.ex_archive a'.
Proof. exact e2e_example_history. Qed.
