(* C18 - Asset-binary round trip preserves every field of every spec.
   Model: Model/AssetBin.v - the reader (from_stream), the flag computation (compute_flags) and the
   writer (append) of src/asset_binary.rs transcribed as three INDEPENDENT tables of the 51 flagged
   fields, and interpreters of these tables written with the stream operations of Model/BinStreams.v.
   Proof structure: the three tables are the projections of one common schema and that schema is
   well formed (distinct bits, marker bit free, extended fields behind byte >= 4, every field
   covered) - COMPUTED; the round trip, the short form, the record size are proved for any such schema.
   Two layers: (1) archive API level, fully proved: the reader inverts the writer on the archive value;
   (2) byte level: relative to the bin-archive round trip as an explicit premise (C18_round_trip_normal_form_relative), and
       with that premise discharged by C01 through Proofs/RecsBinBridge.v (C18_round_trip_normal_form, C18_round_trip_normalises:
       no premise, no axiom).
   SCOPE.  For ALL specs (C18_round_trip_normalises; hypotheses = the representation invariants of the Rust struct + NUL-free
   strings + image < 2^32) the value read back is `norm_bin b`: every string, every presence flag, every value of a PRESENT
   typed field.  The value held by an ABSENT typed field (use flag false) is not stored by the format and reads back as the
   default 0; the literal statement "parse (serialize b) = b for arbitrary field values" is C18_round_trip_full, REFUTED by
   C18_round_trip_full_refuted (unk3 = 5 with use_unk3 = false), and equality holds exactly on the normal form
   (C18_round_trip_equal_iff_normal_form).
   A spec: sp_name, sp_strs (33 optional strings), sp_typed (18 x (use flag, 32-bit pattern)).
   wf_spec = 33 + 18 fields, values < 2^32, NORMAL FORM: an absent typed field holds its default 0
   (the file does not store it; the code needs this: Example C18_normal_form_needed).
   Tied to src/asset_binary.rs by `./check C18`. *)
From Coq Require Import List NArith ZArith Bool.
From Mila Require Import Lib.Bytes Lib.Machine Model.BinArchive Model.BinStreams Model.BinFormat Model.AssetBin
  Proofs.RecsCells Proofs.RecsBytes Proofs.AssetBinSchema Proofs.AssetBinFlags Proofs.AssetBinWrite Proofs.AssetBinRead
  Proofs.AssetBinRoundTrip Proofs.AssetBinBytes Proofs.AssetBinStable Proofs.AssetBinNormalise.
Import ListNotations.
Local Open Scope N_scope.

(* ---- the three transcribed tables agree (a computation over the 51 entries each) ---- *)
Theorem C18_schemas_agree :
  r_base = map rproj c_base /\ r_ext = map rproj c_ext /\
  f_schema = map fproj (c_base ++ c_ext) /\
  w_base = map wproj c_base /\ w_ext = map wproj c_ext /\
  schema_ok c_base c_ext = true.
Proof. vm_compute. repeat split. Qed.

(* ---- generic lemma: for ANY common schema that is well formed, the reader inverts the writer ---- *)
Theorem C18_agreement_implies_round_trip : forall cb ce, schema_wf cb ce -> forall b, wf_bin b ->
  exists a, build_with (map fproj (cb ++ ce)) (map wproj cb) (map wproj ce) b = Ok a /\
            from_archive_with (map rproj cb) (map rproj ce) a = Ok b /\
            a = append_cells (ba_new LE) (file_cells cb ce b).
Proof. exact round_trip_with. Qed.

(* ---- (1) archive level: header flags, every string, colour, size, number and presence flag ---- *)
Theorem C18_round_trip_archive : forall b, wf_bin b -> exists a, build b = Ok a /\ from_archive a = Ok b.
Proof. exact round_trip_archive. Qed.

(* the writer builds exactly the archive of the cell list: flags word, records, trailing zero word *)
Theorem C18_writer_builds_cells : forall b, build b = Ok (append_cells (ba_new LE) (src_file_cells b)).
Proof. exact build_is_cells. Qed.

(* the reader depends only on observations: any archive showing the layout reads as b ... *)
Theorem C18_reader_inverts_layout : forall b a,
  wf_bin b -> a_endian a = LE -> layout a 0 (src_file_cells b) -> size a = cells_size (src_file_cells b) ->
  from_archive a = Ok b.
Proof. exact from_archive_of_layout. Qed.
(* ... in particular every archive observationally equal to the built one *)
Theorem C18_reader_observational : forall b a',
  wf_bin b -> obs_equal (arch_of (src_file_cells b) []) a' -> from_archive a' = Ok b.
Proof. exact from_archive_obs_equal. Qed.

(* ---- (2) byte level; premise = bin-archive round trip on the archives this writer builds ---- *)
Theorem C18_round_trip_normal_form_relative : forall m,
  (forall a, ba_wf a -> image_bound a + 3 < 2 ^ 32 ->
     exists f a', BinFormat.serialize m a = Ok f /\ BinFormat.from_bytes LE f = Ok a' /\ obs_equal a a') ->
  forall b, wf_bin_bytes b ->
  exists f, serialize m b = Ok f /\ parse f = Ok b /\ (forall b', parse f = Ok b' -> serialize m b' = Ok f).
Proof. exact round_trip_bytes. Qed.
(* ... and with that premise discharged by the bin-archive round trip C01 (Proofs/RecsBinBridge.v): for every
   arithmetic mode, serialize succeeds, parse returns the same value, re-serializing what was read gives the same bytes *)
Theorem C18_round_trip_normal_form : forall m b, wf_bin_bytes b ->
  exists f, serialize m b = Ok f /\ parse f = Ok b /\ (forall b', parse f = Ok b' -> serialize m b' = Ok f).
Proof. exact round_trip_bytes_final. Qed.

(* ---- (3) ALL specs: no normal-form condition.  What is read back is the normalised value: the same header flags, and per spec the
        same name, the same 33 optional strings, the same 18 presence flags and the same value of every PRESENT typed field;
        absent typed fields hold the default 0.  (The third conjunct - re-serializing whatever is re-read gives the same bytes -
        follows from the first two in the deterministic model; that two runs of the real serializer agree is C02's statement.) ---- *)
Theorem C18_round_trip_normalises : forall m b, shape_bin_bytes b ->
  exists f, serialize m b = Ok f /\ parse f = Ok (norm_bin b) /\ (forall b', parse f = Ok b' -> serialize m b' = Ok f).
Proof. exact round_trip_bytes_normalises. Qed.
Theorem C18_round_trip_normalises_archive : forall b, shape_bin b ->
  exists a, build b = Ok a /\ from_archive a = Ok (norm_bin b) /\ wf_bin (norm_bin b).
Proof. exact round_trip_normalises. Qed.
(* what normalisation keeps and what it drops *)
Theorem C18_normalise_keeps : forall sp t,
  sp_name (norm_spec sp) = sp_name sp /\ get_str (norm_spec sp) t = get_str sp t /\ get_use (norm_spec sp) t = get_use sp t /\
  get_val (norm_spec sp) t = (if get_use sp t then get_val sp t else 0).
Proof. exact (fun sp t => conj eq_refl (conj (get_str_norm sp t) (conj (get_use_norm sp t) (get_val_norm sp t)))). Qed.
Theorem C18_normal_form_is_fixed : forall b, wf_bin b -> norm_bin b = b.
Proof. exact norm_bin_id. Qed.
(* the writer does not look at the value of an absent field: a value and its normal form have the same image *)
Theorem C18_serialize_normalised : forall m b, serialize m (norm_bin b) = serialize m b.
Proof. exact serialize_norm. Qed.
(* equality of the re-read value holds exactly on the normal form *)
Theorem C18_round_trip_equal_iff_normal_form : forall m b f,
  shape_bin_bytes b -> serialize m b = Ok f -> (parse f = Ok b <-> norm_bin b = b).
Proof. exact round_trip_equal_iff. Qed.
(* the property's literal reading ("arbitrary field values ... exactly the same numeric fields"), kept as the full statement ... *)
Definition C18_round_trip_full : Prop :=
  forall m b, shape_bin_bytes b -> exists f, serialize m b = Ok f /\ parse f = Ok b.
(* ... and refuted: unk3 = 5 with use_unk3 = false is read back as unk3 = 0 (the real crate does the same: the format does not
   store the value of an absent field).  The property's sentence "the same ... numeric fields together with their presence
   flags" is true in the reading of C18_round_trip_normalises. *)
Theorem C18_round_trip_full_refuted : ~ C18_round_trip_full.
Proof. exact round_trip_full_refuted. Qed.
Example C18_witness_in_scope : shape_bin_bytes nf_witness /\ norm_bin nf_witness <> nf_witness.
Proof. split; [exact nf_witness_shape | vm_compute; discriminate]. Qed.
(* the premise is used on a well-formed archive: what the writer builds satisfies ba_wf *)
Theorem C18_built_archive_wf : forall b, wf_bin_bytes b -> ba_wf (arch_of (src_file_cells b) []).
Proof. exact built_archive_wf. Qed.

(* whatever the reader returns - from ANY archive with byte-valued data, also a foreign or malformed one; from any byte string -
   is in the domain (in particular in normal form) and a fixed point of write -> read *)
Theorem C18_reader_output_round_trips : forall a b, wfb (a_data a) -> from_archive a = Ok b ->
  wf_bin b /\ exists a', build b = Ok a' /\ from_archive a' = Ok b.
Proof. exact reader_output_round_trips. Qed.
Theorem C18_parse_output_round_trips : forall f b, wfb f -> parse f = Ok b ->
  wf_bin b /\ exists a', build b = Ok a' /\ from_archive a' = Ok b.
Proof. exact parse_output_round_trips. Qed.

(* two values of the domain with the same image are equal *)
Theorem C18_serialize_injective : forall m b1 b2 f,
  wf_bin_bytes b1 -> wf_bin_bytes b2 -> serialize m b1 = Ok f -> serialize m b2 = Ok f -> b1 = b2.
Proof. exact serialize_injective. Qed.

Theorem C18_reserialize_identical : forall b a b',
  wf_bin b -> build b = Ok a -> from_archive a = Ok b' -> b' = b /\ build b' = Ok a.
Proof. exact reserialize_identical_archive. Qed.

(* ---- short form: 4 flag bytes iff no extended field (clothing_sound, voice, any typed field) ---- *)
Theorem C18_short_form : forall sp, length (fst (compute_flags sp)) = (if ext_present sp then 8%nat else 4%nat).
Proof. exact short_form. Qed.

(* ---- record size: append grows the archive by exactly |flags| + 4 (name) + 4 per present field; the number of
        present fields is the popcount of the flag bytes without the long-form marker; this is the size
        compute_flags announces (and allocates) ---- *)
Theorem C18_record_size : forall sp a,
  keys_below (a_text a) (size a) -> a_endian a = LE ->
  let fl := fst (compute_flags sp) in
  let marker := if 4 <? lenN fl then 1 else 0 in
  exists a', append sp a = Ok a' /\
    size a' = size a + lenN fl + 4 + 4 * fields_present sp /\
    fields_present sp + marker = popcount_flags fl /\
    snd (compute_flags sp) = lenN fl + 4 + 4 * fields_present sp.
Proof. exact record_size. Qed.

(* ---- the data region is header word + the announced record sizes + trailing word, and that is the data-size field of the file ---- *)
Theorem C18_data_size : forall m b f, 4 + announced_total (ab_specs b) + 4 < 2 ^ 32 -> serialize m b = Ok f ->
  u32_at LE f 4 = Some (4 + announced_total (ab_specs b) + 4).
Proof. exact data_size_field. Qed.

(* ---- the read loop stops at the trailing zero word ---- *)
Theorem C18_read_loop_stops : forall b, wf_bin b ->
  exists a, build b = Ok a /\ read_u32 a (size a - 4) = Ok 0 /\ from_stream a (size a - 4) = Err EOob /\
            from_archive a = Ok b.
Proof. exact read_loop_stops. Qed.

(* ---- non-vacuity ---- *)
Definition ex_spec : spec :=
  {| sp_name := Some [110];
     sp_strs := upd voice (fun _ => Some []) (upd body_model (fun _ => Some [98; 111]) (repeat None N_STRS));
     sp_typed := upd unk13 (fun _ => (true, 4294967295))
                   (upd hair_color (fun _ => (true, 67305985)) (repeat (false, 0) N_TYPED)) |}.
Definition ex_bin : asset_binary := {| ab_flags := 65540369; ab_specs := [ex_spec; spec_default] |}.

Example C18_example_wf : wf_bin_bytes ex_bin.
Proof. apply wf_bin_bytesb_sound. vm_compute. reflexivity. Qed.
(* on this file the model's own byte-level functions round-trip (no premise needed for a concrete file) *)
Example C18_example_bytes :
  exists f, serialize Checked ex_bin = Ok f /\ parse f = Ok ex_bin /\ length f = 94%nat.
Proof. eexists. split; [vm_compute; reflexivity|]. split; vm_compute; reflexivity. Qed.
(* the colour 0x04030201 = [1,2,3,4] is stored as 3,2,1,4 *)
Example C18_example_colour :
  exists a, build {| ab_flags := 0; ab_specs := [ex_spec] |} = Ok a /\ read_bytes a 24 4 = Ok [3; 2; 1; 4].
Proof. intros; eexists. split; [vm_compute; reflexivity | vm_compute; reflexivity]. Qed.
(* the normal form is needed: a value in an absent field is not stored *)
Example C18_normal_form_needed :
  let sp := {| sp_name := None; sp_strs := repeat None N_STRS; sp_typed := upd unk3 (fun _ => (false, 5)) (repeat (false, 0) N_TYPED) |} in
  exists a, build {| ab_flags := 0; ab_specs := [sp] |} = Ok a /\
            from_archive a = Ok {| ab_flags := 0; ab_specs := [spec_default] |}.
Proof. intros; eexists. split; [vm_compute; reflexivity | vm_compute; reflexivity]. Qed.
