(* C18 - Asset-binary round trip (work in progress: first computed facts). *)
From Coq Require Import List NArith ZArith Bool.
From Mila Require Import Lib.Bytes Lib.Machine Model.BinArchive Model.BinStreams Model.BinFormat Model.AssetBin.
Import ListNotations.
Local Open Scope N_scope.

Theorem C18_schema_sizes :
  (length r_base + length r_ext = 51 /\ length f_schema = 51 /\ length w_base + length w_ext = 51)%nat.
Proof. vm_compute. repeat split. Qed.
