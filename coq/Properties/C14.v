(* C14 - Path localisation inserts the game's language marker and nothing else.
   Model: Model/Localize.v (tied to src/localization.rs by `./check C14`, exhaustively over
   the 6 x 8 localizer/language table) and, for the last sentence of the property ("all filesystem
   operations apply the same mapping"), Model/LayeredFS.v (tied to src/layered_filesystem.rs by the
   localized-access histories of `./check C14`, shared with C12/C13). *)
From Coq Require Import List NArith Bool.
From Mila Require Import Lib.Bytes Lib.Machine Model.Localize Proofs.LocalizeProofs Model.LayeredFS
  Proofs.LayeredFSBase Proofs.LayeredFSStack Proofs.LayeredFSList Proofs.LayeredFSWf Proofs.LayeredFSLocal.
Import ListNotations.
Local Open Scope N_scope.

(* ---- the specification table, written from the property's words ---- *)
Inductive marker := Unsupported | NoMarker | DirM (m : str) | PrefixM (m : str).

Definition dir_letter (l : lang) : option N :=
  match l with EnglishNA => Some 69 | EnglishEU => Some 85 | Spanish => Some 83 | French => Some 70
             | German => Some 71 | Italian => Some 73 | Japanese => None | Dutch => None end.
Definition prefix_letter (l : lang) : option N :=
  match l with EnglishNA | EnglishEU => Some 101 | Spanish => Some 115 | German => Some 100
             | Italian => Some 105 | French => Some 102 | Japanese | Dutch => None end.
Definition AT : N := 64.
Definition US : N := 95.

Definition spec_marker (g : game) (l : lang) : marker :=
  match g with
  | GNoOp => NoMarker
  | GFE13 => match l with Dutch => Unsupported | Japanese => NoMarker
                       | _ => match dir_letter l with Some c => DirM [c] | None => NoMarker end end
  | GFE14 => match l with Dutch => Unsupported | Japanese => NoMarker
                       | _ => match dir_letter l with Some c => DirM [AT; c] | None => NoMarker end end
  | GFE15 => DirM (match l with
                   | EnglishNA => [64;78;79;65;95;69;78] | EnglishEU => [64;78;79;69;95;69;78] | Japanese => [64;74]
                   | Spanish => [64;78;79;69;95;83;80] | French => [64;78;79;69;95;70;82] | German => [64;78;79;69;95;71;69]
                   | Italian => [64;78;79;69;95;73;84] | Dutch => [64;78;79;69;95;68;85] end)
  | GFE10 => match l with Dutch => Unsupported | Japanese => NoMarker
                       | _ => match prefix_letter l with Some c => PrefixM [c; US] | None => NoMarker end end
  | GFE9 => match l with Dutch => Unsupported | Japanese | EnglishNA | EnglishEU => NoMarker
                      | _ => match prefix_letter l with Some c => PrefixM [c; US] | None => NoMarker end end
  end.

Definition render_marker (m : marker) : option str :=
  match m with
  | Unsupported => None
  | NoMarker => Some [SLASH]
  | DirM d => Some (SLASH :: d ++ [SLASH])
  | PrefixM p => Some (SLASH :: p)
  end.

(* finite: 5 localizers x 8 languages *)
Theorem C14_marker_table : forall g l, g <> GNoOp -> infix g l = render_marker (spec_marker g l).
Proof. intros g l H; destruct g; try congruence; destruct l; reflexivity. Qed.

(* directory part and final component intact, exactly the marker between them *)
Theorem C14_localize_spec : forall g l dir name tr,
  g <> GNoOp -> dir <> [] -> Forall plainP (dir ++ [name]) ->
  localize g l (render (dir ++ [name]) tr) =
    match spec_marker g l with
    | Unsupported => LErr LUnsupportedLanguage
    | NoMarker => LOk (join dir ++ [SLASH] ++ name)
    | DirM m => LOk (join dir ++ [SLASH] ++ m ++ [SLASH] ++ name)
    | PrefixM m => LOk (join dir ++ [SLASH] ++ m ++ name)
    end.
Proof.
  intros g l dir name tr Hg Hd Hp.
  assert (E : localize g l (render (dir ++ [name]) tr) =
              match infix g l with None => LErr LUnsupportedLanguage | Some m => LOk (join dir ++ m ++ name) end).
  { unfold localize. rewrite (parent_and_file_multi dir name tr Hd Hp). destruct g; congruence. }
  rewrite E, (C14_marker_table g l Hg). destruct (spec_marker g l); cbn [render_marker app]; try reflexivity.
  rewrite <- app_assoc. reflexivity.
Qed.

(* a single component is treated as a directory: the marker is appended *)
Theorem C14_single_component : forall g l c tr,
  g <> GNoOp -> plainP c ->
  localize g l (render [c] tr) =
    match spec_marker g l with
    | Unsupported => LErr LUnsupportedLanguage
    | NoMarker => LOk (c ++ [SLASH])
    | DirM m => LOk (c ++ [SLASH] ++ m ++ [SLASH])
    | PrefixM m => LOk (c ++ [SLASH] ++ m)
    end.
Proof.
  intros g l c tr Hg Hc.
  assert (E : localize g l (render [c] tr) =
              match infix g l with None => LErr LUnsupportedLanguage | Some m => LOk (c ++ m ++ []) end).
  { unfold localize. rewrite (parent_and_file_single c tr Hc). destruct g; congruence. }
  rewrite E, (C14_marker_table g l Hg). destruct (spec_marker g l); cbn [render_marker app]; rewrite ?app_nil_r; reflexivity.
Qed.

(* paths without a final component are errors (whatever the language) *)
Theorem C14_degenerate : forall g l, g <> GNoOp ->
  (exists e, localize g l [] = LErr e) /\ (exists e, localize g l [SLASH] = LErr e) /\
  (exists e, localize g l [DOT; DOT] = LErr e) /\ (exists e, localize g l [DOT] = LErr e).
Proof. intros g l H; destruct g; try congruence; repeat split; eexists; reflexivity. Qed.

Theorem C14_noop_identity : forall l p, localize GNoOp l p = LOk p.
Proof. reflexivity. Qed.

(* non-vacuity: "m/GameData.bin.lz" in Spanish for Fates; a path with a space-only directory *)
Example C14_example :
  localize GFE14 Spanish [109;47;71;97;109;101] = LOk [109;47;64;83;47;71;97;109;101]
  /\ localize GFE13 EnglishNA [32;47;120] = LOk [32;47;69;47;120]
  /\ plainP [109] /\ plainP [32].
Proof. vm_compute. repeat split; try congruence; intros [H|[]]; discriminate. Qed.

(* ---------------------------------------------------------------- C14 (file-system half) *)
(* all filesystem operations apply the same mapping: a localized call addresses localize p.  read and write
   pick the codec by the name the CALLER passed (as the code does), which for a path dir/name is the same
   choice as for localize p ([C14_fs_same_codec]). *)
Theorem C14_fs_consistent : forall S p p',
  localize (c_loc (conf S)) (lng S) p = LOk p' ->
  fs_addr S p true = fs_addr S p' false /\
  fs_exists S p true = fs_exists S p' false /\
  fs_file_exists S p true = fs_file_exists S p' false /\
  fs_directory_exists S p true = fs_directory_exists S p' false /\
  fs_resolve S p true = fs_resolve S p' false /\
  (forall pat, fs_list S p pat true = fs_list S p' pat false) /\
  fs_subdirectories S p true = fs_subdirectories S p' false /\
  fs_create_dir S p true = fs_create_dir S p' false /\
  (forall compress decompress,
     is_compressed (c_comp (conf S)) p = is_compressed (c_comp (conf S)) p' ->
     fs_read decompress S p true = fs_read decompress S p' false /\
     (forall b, fs_write compress S p b true = fs_write compress S p' b false)).
Proof.
  intros S p p' H. split; [exact (loc_addr S p p' H)|].
  destruct (loc_queries S p p' H) as (A & B & C & D & E & F & G). repeat (split; [assumption|]).
  intros c d. exact (loc_read_write S p p' H c d).
Qed.
Theorem C14_fs_same_codec : forall g l c dir name p',
  g <> GNoOp -> dir <> [] -> Forall plainP (dir ++ [name]) ->
  localize g l (render (dir ++ [name]) false) = LOk p' ->
  is_compressed c p' = is_compressed c (render (dir ++ [name]) false).
Proof. exact loc_same_codec. Qed.
(* a localisation error is reported by every operation (resolve: None) and changes nothing *)
Theorem C14_fs_localisation_error : forall S p e compress decompress b pat,
  localize (c_loc (conf S)) (lng S) p = LErr e ->
  fs_read decompress S p true = FErr (ELocalization e) /\
  fs_write compress S p b true = (S, FErr (ELocalization e)) /\
  fs_create_dir S p true = (S, FErr (ELocalization e)) /\
  fs_exists S p true = FErr (ELocalization e) /\
  fs_list S p pat true = FErr (ELocalization e) /\
  fs_resolve S p true = FOk None.
Proof.
  intros S p e c d b pat H.
  unfold fs_read, fs_write, fs_create_dir, fs_exists, fs_list, fs_resolve, fs_addr, fs_actual. rewrite H. repeat split.
Qed.

(* non-vacuity of the file-system half: the example file system of Properties/C13.v *)
Definition ex14_fs : fsys := mkFs [[([[100]], Dir); ([[100]; [97]], File [1])]] (mkConfig LZ13 GFE13 LE Unicode) EnglishNA.
Example C14_fs_example : localize (c_loc (conf ex14_fs)) (lng ex14_fs) [100; 47; 97] = LOk [100; 47; 69; 47; 97].
Proof. vm_compute. reflexivity. Qed.
