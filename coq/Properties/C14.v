(* C14 - Path localisation inserts the game's language marker and nothing else.
   Model: Model/Localize.v (tied to src/localization.rs by `./check C14`, exhaustively over
   the 6 x 8 localizer/language table) and, for the last sentence of the property ("all filesystem
   operations apply the same mapping"), Model/LayeredFS.v (tied to src/layered_filesystem.rs by the
   localized-access histories of `./check C14`, shared with C12/C13). *)
From Coq Require Import List NArith Bool.
From Mila Require Import Lib.Bytes Lib.Machine Model.Localize Proofs.LocalizeProofs Model.LayeredFS
  Proofs.LayeredFSBase Proofs.LayeredFSStack Proofs.LayeredFSList Proofs.LayeredFSWf Proofs.LayeredFSLocal.
Import ListNotations.
Local Open Scope N_scope.

(* ---- the specification table, written from the property's words ---- *)
Inductive marker := Unsupported | NoMarker | DirM (m : str) | PrefixM (m : str).

Definition dir_letter (l : lang) : option N :=
  match l with EnglishNA => Some 69 | EnglishEU => Some 85 | Spanish => Some 83 | French => Some 70
             | German => Some 71 | Italian => Some 73 | Japanese => None | Dutch => None end.
Definition prefix_letter (l : lang) : option N :=
  match l with EnglishNA | EnglishEU => Some 101 | Spanish => Some 115 | German => Some 100
             | Italian => Some 105 | French => Some 102 | Japanese | Dutch => None end.
Definition AT : N := 64.
Definition US : N := 95.

Definition spec_marker (g : game) (l : lang) : marker :=
  match g with
  | GNoOp => NoMarker
  | GFE13 => match l with Dutch => Unsupported | Japanese => NoMarker
                       | _ => match dir_letter l with Some c => DirM [c] | None => NoMarker end end
  | GFE14 => match l with Dutch => Unsupported | Japanese => NoMarker
                       | _ => match dir_letter l with Some c => DirM [AT; c] | None => NoMarker end end
  | GFE15 => DirM (match l with
                   | EnglishNA => [64;78;79;65;95;69;78] | EnglishEU => [64;78;79;69;95;69;78] | Japanese => [64;74]
                   | Spanish => [64;78;79;69;95;83;80] | French => [64;78;79;69;95;70;82] | German => [64;78;79;69;95;71;69]
                   | Italian => [64;78;79;69;95;73;84] | Dutch => [64;78;79;69;95;68;85] end)
  | GFE10 => match l with Dutch => Unsupported | Japanese => NoMarker
                       | _ => match prefix_letter l with Some c => PrefixM [c; US] | None => NoMarker end end
  | GFE9 => match l with Dutch => Unsupported | Japanese | EnglishNA | EnglishEU => NoMarker
                      | _ => match prefix_letter l with Some c => PrefixM [c; US] | None => NoMarker end end
  end.

Definition render_marker (m : marker) : option str :=
  match m with
  | Unsupported => None
  | NoMarker => Some [SLASH]
  | DirM d => Some (SLASH :: d ++ [SLASH])
  | PrefixM p => Some (SLASH :: p)
  end.

(* finite: 5 localizers x 8 languages *)
Theorem C14_marker_table : forall g l, g <> GNoOp -> infix g l = render_marker (spec_marker g l).
Proof. intros g l H; destruct g; try congruence; destruct l; reflexivity. Qed.

(* directory part and final component intact, exactly the marker between them *)
(* ([valid_str]: the caller's path is a Rust str - a list of Unicode scalar values; see C14_no_panic below.
   With tr = true the trailing '/' of the input is DROPPED: "a/b/" localizes to "a/<marker>b" - with no marker
   to "a/b", which is not the input: [C14_example_trailing_slash].) *)
Theorem C14_localize_spec : forall g l dir name tr,
  g <> GNoOp -> dir <> [] -> Forall plainP (dir ++ [name]) -> valid_str (render (dir ++ [name]) tr) = true ->
  localize g l (render (dir ++ [name]) tr) =
    match spec_marker g l with
    | Unsupported => LErr LUnsupportedLanguage
    | NoMarker => LOk (join dir ++ [SLASH] ++ name)
    | DirM m => LOk (join dir ++ [SLASH] ++ m ++ [SLASH] ++ name)
    | PrefixM m => LOk (join dir ++ [SLASH] ++ m ++ name)
    end.
Proof.
  intros g l dir name tr Hg Hd Hp Hv.
  assert (E : localize g l (render (dir ++ [name]) tr) =
              match infix g l with None => LErr LUnsupportedLanguage | Some m => LOk (join dir ++ m ++ name) end).
  { unfold localize. rewrite (parent_and_file_multi dir name tr Hd Hp Hv). destruct g; congruence. }
  rewrite E, (C14_marker_table g l Hg). destruct (spec_marker g l); cbn [render_marker app]; try reflexivity.
  rewrite <- app_assoc. reflexivity.
Qed.

(* a single component is treated as a directory: the marker is appended *)
Theorem C14_single_component : forall g l c tr,
  g <> GNoOp -> plainP c -> valid_str (render [c] tr) = true ->
  localize g l (render [c] tr) =
    match spec_marker g l with
    | Unsupported => LErr LUnsupportedLanguage
    | NoMarker => LOk (c ++ [SLASH])
    | DirM m => LOk (c ++ [SLASH] ++ m ++ [SLASH])
    | PrefixM m => LOk (c ++ [SLASH] ++ m)
    end.
Proof.
  intros g l c tr Hg Hc Hv.
  assert (E : localize g l (render [c] tr) =
              match infix g l with None => LErr LUnsupportedLanguage | Some m => LOk (c ++ m ++ []) end).
  { unfold localize. rewrite (parent_and_file_single c tr Hc Hv). destruct g; congruence. }
  rewrite E, (C14_marker_table g l Hg). destruct (spec_marker g l); cbn [render_marker app]; rewrite ?app_nil_r; reflexivity.
Qed.

(* paths without a final component are errors, with these values, whatever the language: the path error wins over
   UnsupportedLanguage (the `?` on get_parent_and_file_name comes before the language match), and MissingParent over
   MissingFileName (get_parent_as_string is called first) *)
Theorem C14_degenerate : forall g l, g <> GNoOp ->
  localize g l [] = LErr LMissingParent /\ localize g l [SLASH] = LErr LMissingParent /\
  localize g l [DOT; DOT] = LErr LMissingFileName /\ localize g l [DOT] = LErr LMissingFileName.
Proof. intros g l H; destruct g; try congruence; repeat split; reflexivity. Qed.

(* ---- "the function never panics" (review r4, C14-1).  The only panic sites of src/localization.rs are the two
   `value.to_str().unwrap()` (lines 10, 18); the model carries them as the outcome LPanic, reached exactly when OsStr::to_str
   ([os_to_str]) fails on the slice Path::parent / Path::file_name returned.
   (a) the general argument, for EVERY string, also outside the modelled path shapes: whatever sub-slice of the caller's str
       reaches an unwrap site, to_str succeeds (assumption A-fs: the slices are cut next to '/' bytes of a UTF-8 string, i.e.
       they are sub-lists of the scalar-value list);
   (b) the model's Path::parent / Path::file_name do return sub-slices of the caller's string;
   (c) hence localize never returns LPanic on a str, for all 6 localizers x 8 languages x all strings; the result is Ok of a
       str, an error, or "outside the modelled path shapes" ([classify] = SOther: there the VALUE is only tested, the absence
       of a panic rests on (a)).  The file-system operations inherit it through fs_actual. ---- *)
Theorem C14_unwrap_sites_never_fail : forall p v,
  valid_str p = true -> (exists a b, p = a ++ v ++ b) -> os_to_str v = Some v.
Proof. exact (fun p v H Hs => os_to_str_substring v p H Hs). Qed.
Theorem C14_model_slices_are_substrings : forall p v,
  (path_parent p = QSome v -> exists a b, p = a ++ v ++ b) /\ (path_file_name p = QSome v -> exists a b, p = a ++ v ++ b).
Proof. intros p v. split; [exact (path_parent_substring p v) | exact (path_file_name_substring p v)]. Qed.
Theorem C14_no_panic : forall g l p, valid_str p = true -> localize g l p <> LPanic.
Proof. exact localize_no_panic. Qed.
Theorem C14_total : forall g l p, valid_str p = true ->
  match localize g l p with
  | LOk r => valid_str r = true
  | LErr _ => True
  | LUnmodelled => classify p = SOther
  | LPanic => False
  end.
Proof. exact localize_total. Qed.
(* what a str is: no surrogates, below 0x110000 *)
Theorem C14_valid_str_is : forall p, valid_str p = true <-> forall c, In c p -> c < 55296 \/ (57343 < c /\ c < 1114112).
Proof.
  intros p. unfold valid_str. rewrite forallb_forall. split; intros H c Hc; specialize (H c Hc); unfold scalar in *.
  - apply orb_true_iff in H. destruct H as [H|H]; [left; apply N.ltb_lt; exact H|].
    apply andb_true_iff in H. destruct H as (H1 & H2). right. split; apply N.ltb_lt; assumption.
  - apply orb_true_iff. destruct H as [H|(H1 & H2)]; [left; apply N.ltb_lt; exact H|].
    right. apply andb_true_iff. split; apply N.ltb_lt; assumption.
Qed.
(* the panic outcome of the model is reachable only through a string that is not a str: a lone surrogate in the parent *)
Example C14_panic_needs_invalid : valid_str [55296; 47; 97] = false /\ localize GFE13 EnglishNA [55296; 47; 97] = LPanic.
Proof. vm_compute. split; reflexivity. Qed.

Theorem C14_noop_identity : forall l p, localize GNoOp l p = LOk p.
Proof. reflexivity. Qed.

(* non-vacuity: "m/GameData.bin.lz" in Spanish for Fates; a path with a space-only directory *)
Example C14_example :
  localize GFE14 Spanish [109;47;71;97;109;101] = LOk [109;47;64;83;47;71;97;109;101]
  /\ localize GFE13 EnglishNA [32;47;120] = LOk [32;47;69;47;120]
  /\ plainP [109] /\ plainP [32].
Proof. vm_compute. repeat split; try congruence; intros [H|[]]; discriminate. Qed.
(* the trailing '/' of the input is dropped ("and nothing else" is slightly violated by the code): "a/b/" -> "a/E/b" for
   FE13 English, and for FE13 Japanese (no marker) "a/b/" -> "a/b", not the input; a single component "x.lz" is treated as a
   directory: "x.lz/E/"; multi-byte characters next to the '/' (U+65E5 U+672C) are cut correctly *)
Example C14_example_trailing_slash :
  localize GFE13 EnglishNA [97;47;98;47] = LOk [97;47;69;47;98]
  /\ localize GFE13 Japanese [97;47;98;47] = LOk [97;47;98]
  /\ localize GFE13 EnglishNA [120;46;108;122] = LOk [120;46;108;122;47;69;47]
  /\ localize GFE15 Japanese [26085;47;26412] = LOk [26085;47;64;74;47;26412].
Proof. vm_compute. repeat split. Qed.

(* ---------------------------------------------------------------- C14 (file-system half) *)
(* all filesystem operations apply the same mapping: a localized call addresses localize p.  read and write
   pick the codec by the name the CALLER passed (as the code does), which for a path dir/name is the same
   choice as for localize p ([C14_fs_same_codec]). *)
Theorem C14_fs_consistent : forall S p p',
  localize (c_loc (conf S)) (lng S) p = LOk p' ->
  fs_addr S p true = fs_addr S p' false /\
  fs_exists S p true = fs_exists S p' false /\
  fs_file_exists S p true = fs_file_exists S p' false /\
  fs_directory_exists S p true = fs_directory_exists S p' false /\
  fs_resolve S p true = fs_resolve S p' false /\
  (forall pat, fs_list S p pat true = fs_list S p' pat false) /\
  fs_subdirectories S p true = fs_subdirectories S p' false /\
  fs_create_dir S p true = fs_create_dir S p' false /\
  (forall compress decompress,
     is_compressed (c_comp (conf S)) p = is_compressed (c_comp (conf S)) p' ->
     fs_read decompress S p true = fs_read decompress S p' false /\
     (forall b, fs_write compress S p b true = fs_write compress S p' b false)).
Proof.
  intros S p p' H. split; [exact (loc_addr S p p' H)|].
  destruct (loc_queries S p p' H) as (A & B & C & D & E & F & G). repeat (split; [assumption|]).
  intros c d. exact (loc_read_write S p p' H c d).
Qed.
Theorem C14_fs_same_codec : forall g l c dir name p',
  g <> GNoOp -> dir <> [] -> Forall plainP (dir ++ [name]) ->
  localize g l (render (dir ++ [name]) false) = LOk p' ->
  is_compressed c p' = is_compressed c (render (dir ++ [name]) false).
Proof. exact loc_same_codec. Qed.
(* a localisation error is reported by every operation (resolve: None) and changes nothing *)
Theorem C14_fs_localisation_error : forall S p e compress decompress b pat,
  localize (c_loc (conf S)) (lng S) p = LErr e ->
  fs_read decompress S p true = FErr (ELocalization e) /\
  fs_write compress S p b true = (S, FErr (ELocalization e)) /\
  fs_create_dir S p true = (S, FErr (ELocalization e)) /\
  fs_exists S p true = FErr (ELocalization e) /\
  fs_file_exists S p true = FErr (ELocalization e) /\
  fs_directory_exists S p true = FErr (ELocalization e) /\
  fs_list S p pat true = FErr (ELocalization e) /\
  fs_subdirectories S p true = FErr (ELocalization e) /\
  fs_resolve S p true = FOk None.
Proof.
  intros S p e c d b pat H.
  unfold fs_read, fs_write, fs_create_dir, fs_exists, fs_file_exists, fs_directory_exists, fs_list, fs_subdirectories,
    fs_resolve, fs_addr, fs_actual. rewrite H. repeat split.
Qed.
(* ... and no file-system operation panics in the localizer: a localized call on a str never takes the FPanic PUnwrap arm *)
Theorem C14_fs_no_panic : forall S p, valid_str p = true -> fs_actual S p true <> FPanic PUnwrap /\ fs_actual S p false = FOk p.
Proof.
  intros S p H. split; [|reflexivity]. unfold fs_actual. pose proof (C14_no_panic (c_loc (conf S)) (lng S) p H) as NP.
  destruct (localize (c_loc (conf S)) (lng S) p); congruence.
Qed.

(* non-vacuity of the file-system half: the example file system of Properties/C13.v *)
Definition ex14_fs : fsys := mkFs [[([[100]], Dir); ([[100]; [97]], File [1])]] (mkConfig LZ13 GFE13 LE Unicode) EnglishNA.
Example C14_fs_example : localize (c_loc (conf ex14_fs)) (lng ex14_fs) [100; 47; 97] = LOk [100; 47; 69; 47; 97].
Proof. vm_compute. reflexivity. Qed.
(* the codec is chosen by the CALLER's name (C14_fs_consistent's side condition is necessary): FE13 / EnglishNA, toy codec
   "prepend 19".  write("d/z.lz", [7;8], localized) stores [19;7;8] at d/E/z.lz; read("d/z.lz", localized) returns [7;8];
   read("d/z.lz/", localized) addresses the SAME file ("d/z.lz/" localizes to "d/E/z.lz") but the name does not end in
   ".lz", so it returns the RAW stored bytes [19;7;8] (the real library behaves the same: review r4, C14-3) *)
Definition ex14_comp (f : cfmt) (b : bytes) : outcome bytes := Ok (19 :: b).
Definition ex14_decomp (f : cfmt) (b : bytes) : outcome bytes := match b with 19 :: r => Ok r | _ => Err EInvalidInput end.
Example C14_fs_example_trailing_slash_raw :
  let '(S', r) := fs_write ex14_comp ex14_fs [100; 47; 122; 46; 108; 122] [7; 8] true in
  r = FOk tt /\ l_get (last (layers S') []) [[100]; [69]; [122; 46; 108; 122]] = Some (File [19; 7; 8]) /\
  fs_read ex14_decomp S' [100; 47; 122; 46; 108; 122] true = FOk [7; 8] /\
  fs_read ex14_decomp S' [100; 47; 122; 46; 108; 122; 47] true = FOk [19; 7; 8] /\
  fs_addr S' [100; 47; 122; 46; 108; 122; 47] true = fs_addr S' [100; 47; 122; 46; 108; 122] true.
Proof. vm_compute. repeat split. Qed.
